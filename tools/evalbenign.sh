#!/bin/bash
# tools/evalbenign.sh <dir-with-patch.diff> [checks...]: apply a behaviour-preserving change in a
# scratch worktree and run the quick checks against it; any exit 1 is a false alarm of ours.
# SKIPSUITE=1 skips the repository's own suite (for re-runs of changes validated before).
D="$1"; shift
CHECKS="${*:-C01 C02 C03 C04 C05 C06 C07 C08 C09 C16 C17 C18 C19 C20}"
export GOFLAGS=-mod=mod GOPROXY=off GOSUMDB=off GOTOOLCHAIN=local
WT=$(mktemp -d /tmp/evalben.XXXXXX); rmdir $WT
git -C /repo worktree add -q $WT HEAD || exit 2
( cd $WT && git apply "$D/patch.diff" ) || { echo "$D: PATCH-DOES-NOT-APPLY"; git -C /repo worktree remove --force $WT; exit 2; }
( cd $WT && go build ./... && { [ "${SKIPSUITE:-0}" = 1 ] || go test -count=1 . >/dev/null 2>&1; } ) || { echo "$D: SUITE-FAILS"; git -C /repo worktree remove --force $WT; exit 2; }
res=""
for c in $CHECKS; do
  out=$(/verif/bin/check-at $WT $c quick 2>&1); rc=$?
  o=$(echo "$out" | grep -o "out=/tmp/checkat[.A-Za-z0-9]*" | cut -d= -f2); 
  if [ $rc -ne 0 ]; then
    res="$res $c=$rc"
    mkdir -p "$D/alarms"; echo "$out" | grep -v "^WARN" | grep -A3 "^VIOLATION\|HARNESS\|BUILD" | cut -c1-600 > "$D/alarms/$c.txt"
    [ -n "$o" ] && cp -r $o/replays "$D/alarms/$c-replays" 2>/dev/null
  fi
  [ -n "$o" ] && rm -rf $o
done
git -C /repo worktree remove --force $WT
echo "$D:${res:- all-quiet}"
