#!/usr/bin/env python3
"""tools/mkmeta.py <seeded-dir>...: (re)write meta.json from eval.json and README.md (same as tools/evalall.sh does)."""
import json,sys,os
for d in sys.argv[1:]:
    d=d.rstrip('/'); id_=os.path.basename(d); P=id_.split('-')[0]
    e=json.load(open(os.path.join(d,'eval.json')))
    readme=open(os.path.join(d,'README.md')).read() if os.path.exists(os.path.join(d,'README.md')) else ''
    caught=sorted(k for k,v in e['checks'].items() if v['exit']==1)
    meta=dict(id=id_, breaks_property=P, source="independent sub-agent given only the property text and a scratch worktree",
      needs_to_manifest=readme.strip()[:1500],
      validated=dict(demo_passes_on_clean_tree=e.get('demo_passes_clean'), patch_applies=e.get('patch_applies'), existing_suite_passes_with_change=e.get('suite_passes_mutated'), demo_fails_with_change=e.get('demo_fails_mutated'), demo_test=e.get('test')),
      what_was_run=[f"bin/check-at <scratch worktree with patch> {k.split('@')[0]} quick (VERIF_SEED={k.split('@')[1] if '@' in k else 1}) -> exit {v['exit']} {v['violations'][:3]}" for k,v in e['checks'].items()],
      caught_by=caught, missed_by=sorted(k for k,v in e['checks'].items() if v['exit']==0))
    json.dump(meta,open(os.path.join(d,'meta.json'),'w'),indent=1)
    print(id_, 'caught' if caught else 'MISSED', caught)
