#!/bin/bash
# Re-evaluate every seeded change under /verif/seeded with the given seeds; writes eval.json and meta.json.
SEEDS="${1:-1,2}"
for d in /verif/seeded/${FILTER:-*}/; do
  id=$(basename "$d"); P=${id%%-*}
  checks="$P"
  [ "$id" = "C19-m3" ] && checks="C19,C20"; [ "$id" = "C19-w2m1" ] && checks="C19,C20"; [ "$id" = "C05-w2m1" ] && checks="C05,C01"; [ "$id" = "C09-w3m3" ] && checks="C09,C16"
  [ "$id" = "C05-w5m2" ] && checks="C05,C01"; [ "$id" = "C08-w5m2" ] && checks="C08,C16"; [ "$id" = "C06-w5m2" ] && checks="C06,C20"; [ "$id" = "C04-w6f6m2" ] && checks="C04,C01"
  [ "$id" = "C01-w7m1" ] && checks="C01,C17"; [ "$id" = "C05-w7m1" ] && checks="C05,C17"; [ "$id" = "C05-w7m2" ] && checks="C05,C17"; [ "$id" = "C08-w7m2" ] && checks="C08,C03"; [ "$id" = "C20-w7m2" ] && checks="C20,C16"; [ "$id" = "C05-w8m2" ] && checks="C05,C01"; [ "$id" = "C05-w9m1" ] && checks="C05,C01"; [ "$id" = "C19-w9m2" ] && checks="C19,C20"; [ "$id" = "C09-w10m1" ] && checks="C09,C02"; [ "$id" = "C07-w11m1" ] && checks="C07,C19"; [ "$id" = "C07-w11m2" ] && checks="C07,C16"
  python3 /verif/tools/evalmut.py "$d" "$P" --checks "$checks" --seeds "$SEEDS" > "$d/eval.json" 2>/dev/null
  python3 - "$d" "$id" "$P" <<'PY'
import json,sys,os
d,id_,P=sys.argv[1:4]
e=json.load(open(os.path.join(d,'eval.json')))
readme=open(os.path.join(d,'README.md')).read() if os.path.exists(os.path.join(d,'README.md')) else ''
caught=sorted(k for k,v in e['checks'].items() if v['exit']==1)
meta=dict(id=id_, breaks_property=P, source="independent sub-agent given only the property text and a scratch worktree",
  needs_to_manifest=readme.strip()[:1500],
  validated=dict(demo_passes_on_clean_tree=e.get('demo_passes_clean'), patch_applies=e.get('patch_applies'), existing_suite_passes_with_change=e.get('suite_passes_mutated'), demo_fails_with_change=e.get('demo_fails_mutated'), demo_test=e.get('test')),
  what_was_run=[f"bin/check-at <scratch worktree with patch> {k.split('@')[0]} quick (VERIF_SEED={k.split('@')[1] if '@' in k else 1}) -> exit {v['exit']} {v['violations'][:3]}" for k,v in e['checks'].items()],
  caught_by=caught, missed_by=sorted(k for k,v in e['checks'].items() if v['exit']==0))
json.dump(meta,open(os.path.join(d,'meta.json'),'w'),indent=1)
print(id_, 'caught' if caught else 'MISSED', caught, [k for k,v in e['checks'].items() if v['exit'] not in (0,1)])
PY
done
