#!/usr/bin/env python3
"""Regenerates /verif/MANIFEST.json from the table below (kept in one place so that the
manifest stays valid and consistent while engines are added)."""
import json, os, subprocess
V = os.path.dirname(os.path.dirname(os.path.abspath(__file__)))

TECH = "deterministic simulation with fault injection: seeded scenarios (one PRNG, VERIF_SEED) run the real library inside simulated reader/writer/packet-channel/scheduler components; oracles are reference models checked per step and over the recorded history; failures are minimised and replayable"

CHECKS = {
 "C01": dict(engine="pipeline", cat="exploration", ref="3.1",
   text="Seeded histories of successful Muxer calls (payload lengths around every k*184 -/+ header/AF boundary and above 65535, every optional-header combination the writer supports, adaptation fields up to 'fills the packet' and 'leaves no room for the PES header', explicit/automatic PIDs, removal and re-adding) are muxed by the real Muxer, carried through a SimReader with a seeded short-read plan and reader kind, and demuxed by the real Demuxer; per PID the delivered PES sequence must equal the written one in payload bytes, stream id, header fields and first-packet adaptation field, tables must match every emission, no error anywhere; a third of the runs relay the parser's own structures into a second Muxer (cmd/astits-es-split topology). Sampling, not proof.",
   note="Trusted: MuxModel log of accepted units; normalisation list of parser-derived fields (lengths, stuffing). Conformant arguments only (see DESIGN 3.1 Scope)."),
 "C02": dict(engine="refmux", cat="exploration", ref="3.2",
   text="Random well-formed stream models (1..8 PIDs, PES bounded/unbounded, PSI units of 1..N sections over 1..6 packets, six table types) are packetised by an independent reference multiplexer with seeded split points (1..184, 1-byte first/last chunks), AF stuffing or trailing 0xFF, pointer fields and seeded interleaving, and read by the real Demuxer through a position-tracking reader: per PID the delivered sequence must equal the generated units (each once, in order, last unit before ErrNoMorePackets, no error) and a PAT/PMT must be returned with the reader positioned exactly at the end of its last packet, later sections of the unit needing no Read. A flagged sub-population carries spec-legal straddling sections (known finding K01/K02).",
   note="Trusted: refts encoders/packetiser and the expected-output builder (written from ISO 13818-1 / EN 300 468). Scope: every section of a unit starts in the unit's first packet; PAT precedes PMT packets."),
 "C03": dict(engine="hostile-reader", cat="exploration", ref="3.3",
   text="Random bytes (sync bytes planted at packet multiples, at random places or nowhere; empty, 1 byte, shorter than the 193-byte detection window), reference streams mutated at seeded positions and at targeted length-like fields, re-framed to 188+k, and truncation sweeps are fed through seekable/bufio/plain SimReaders with seeded chunk plans to the real Demuxer with packet size in {auto,188,192,204,189,300}, NextPacket / NextData / alternating, with and without skipper / parser. Per run: no panic; an error-returning call consumed input; ErrNoMorePackets within len(input)+16 calls and on each of the next 8; in[:k] behaves like in[:k - k mod size]; a 20 s supervisor turns a spinning run into a violation of class hang. Sampling of the input space.",
   note="Trusted: SimReader bookkeeping and the per-run supervisor. With alternating APIs the end of the run is NextData's first ErrNoMorePackets (NextPacket reports the end of input while assembled units are still pending)."),
 "C04": dict(engine="muxhist", cat="exploration", ref="3.4",
   text="Seeded Muxer call histories (valid and invalid arguments, all six API calls, retransmit periods 1..50) on the real Muxer over a recording writer; after every call an independent ISO 13818-1 decoder re-reads everything accepted so far: 188-byte alignment, sync byte, AF+payload=184, PUSI placement, PES start code / pointer field, returned n == bytes accepted, rejected calls write nothing. Sampling of an unbounded history space: evidence, not proof.",
   note="Trusted: the refts reference decoder and the MuxModel (written from the standard, constants learned from output); the recording writer never fails in this engine (writer faults are C18)."),
 "C05": dict(engine="muxhist", cat="exploration", ref="3.4",
   text="Same histories as C04; per PID (PAT, PMT, every elementary stream between Add and Remove) consecutive payload packets must step by +1 mod 16 and adaptation-only packets repeat the value, across failed calls, retransmissions, removals and counter wrap (probes count wraps per PID class).",
   note="Trusted: reference header decoder; first counter value on a PID is unconstrained."),
 "C06": dict(engine="lossy-channel", cat="fault_enumeration", ref="3.5",
   text="Reference-multiplexed streams go through a PacketChannel; for half of the streams EVERY single-packet duplication position and EVERY single-packet deletion position is executed (exhaustive per stream), the other half get seeded multi-fault plans (loss bursts up to 14 per PID, duplicates of first/middle/last/single packets, duplicates delayed behind other PIDs, dup+loss), some streams carrying PES payloads full of start-code patterns. Against the fault-free baseline: a duplicate leaves PES PIDs identical and removes nothing on PSI PIDs (extra deliveries must repeat baseline data); after loss every delivered datum equals a baseline datum in order, other PIDs are identical, and only units that lost a packet or precede a gap may be missing. Streams are sampled; fault positions per stream are enumerated.",
   note="Trusted: reference multiplexer and the per-packet unit bookkeeping. Scope: duplicates are byte-identical and immediate on their PID; <=14 consecutive losses per PID with a later surviving packet (15 losses repeat the counter = a duplicate by definition)."),
 "C07": dict(engine="interleave", cat="exploration", ref="3.6",
   text="The per-PID packet queues of a reference stream are merged under 2-4 seeded order-preserving schedules (uniform, bursty, starvation, reverse priority), each PID is also demuxed alone (PMT PIDs with PID 0), null / adaptation-only / transport-error packets are inserted at seeded positions and one non-PAT PID is corrupted (garbage payloads and/or loss); every PID's delivered sequence must be identical in all variants (nothing is compared across PIDs). Sampling of the schedule space.",
   note="Trusted: reference multiplexer and scheduler. Schedules keep the relative order of PID 0 and PMT PIDs; errors returned for corrupted PIDs / TEI packets are skipped."),
 "C08": dict(engine="read-schedule", cat="exploration", ref="3.7",
   text="One reference stream is read through 10-24 SimReaders per run that differ only in read schedule (fixed chunks 1..400, seeded lists, one boundary in the first 400 bytes, EOF with the last bytes), reader kind (seekable, real bufio.Reader, plain), explicit vs auto-detected packet size and 188+k framing (k in 1..4,16); NextPacket and NextData sequences must equal the canonical run (explicit 188, one read); plain readers with auto-detection must agree with each other.",
   note="Trusted: reference multiplexer/re-framer. Scope: auto-detection needs >=2 packets and no 0x47 in bytes 188..size-1; bufio buffers >= 256 bytes."),
 "C09": dict(engine="bitrot", cat="fault_enumeration", ref="3.8",
   text="Sections mode: a unit of 1..N reference-encoded sections of the six table types (after a clean PAT, followed by a clean unit on the same PID, traffic on other PIDs) is corrupted in its section bytes only - for a third of the runs EVERY single-bit flip of every section byte of the unit is executed (exhaustive per unit), another third gets seeded byte substitutions, bursts up to 32 bits, truncations and extensions. Delivered data on the unit's PID must be a subsequence of what the stream carries with every touched section absent (CRC collisions, judged by a bit-serial reference CRC, are counted and never reported), untouched units and other PIDs unchanged. Muxed mode (last third): Muxer histories with ES descriptors of all 23 typed kinds (0..n items, Length 0 or arbitrary) plus user-defined/unknown ones; every PAT/PMT packet must frame to exactly one section whose section_length bytes follow, CRC residue 0 under the reference CRC, only 0xFF behind.",
   note="Trusted: refts section encoders, framer and bit-serial CRC. Corruption is confined to table_id..last section byte. Whether a damaged unit yields an error or nothing is left open."),
 "C16": dict(engine="tenants", cat="exploration", ref="3.9",
   text="2..8 (thorough: up to 64) tenants - real goroutines, each with its own Demuxer on its own reference stream or its own Muxer history - share only the package-level bytes pool, backed by SimPool through the verif hook (LIFO/FIFO/seeded-pick/never-reuse, buffers poisoned on put and get). The tenant scheduler releases one goroutine at a time, switching at API boundaries and at the pool's before-get / after-get / before-put points per the scenario. Every returned Packet/DemuxerData is deep-dumped at delivery and re-compared by its owner after each later step and at the end; WriteData payloads likewise; each tenant's sequence must equal its solo run on a private never-reusing pool; pool gets/puts must balance. One run in eight is re-executed by a -race build in which the hand-offs are raw pipe syscalls the detector cannot see, so every pair of conflicting accesses by two tenants is reported independent of timing; a report with a library frame is a violation.",
   note="Trusted: SimPool (stub of sync.Pool: put happens-before get of the same item, nothing more), baton scheduler, Go race detector. Needs the one hook (build tag verif). Preemption inside library code other than at pool points is not simulated; the HB-blind race pass covers what it could expose."),
 "C17": dict(engine="muxhist", cat="exploration", ref="3.4",
   text="Same histories; refinement against the MuxModel: tables before the first unit, automatic PAT+PMT exactly when the accepted-call count reaches the period or RAI on the PCR PID, nowhere else except explicit WriteTables; PMT content = model stream list in insertion order with type/descriptors/PCR PID; PAT maps program 1 to the PMT PID; automatic PIDs unique and outside reserved ranges; version +1 mod 32 iff content changed.",
   note="Trusted: MuxModel transition rules (DESIGN App. A). Calls rejected for an invalid argument may or may not count towards the period (both accepted)."),
 "C18": dict(engine="io-faults", cat="fault_enumeration", ref="3.10",
   text="Reader side: a reference stream is served by a SimReader failing with a sentinel at byte offset k, for EVERY k in [0,len] of short streams (a stride for long ones), one-shot and sticky, as (0,E) and - sticky only - with the bytes below k, on seekable/plain/bufio readers with seeded chunk plans, explicit and auto-detected size, NextPacket and NextData: the first non-data result must be an error wrapping the sentinel (never ErrNoMorePackets), results before it a prefix of the fault-free output. Writer side: short Muxer histories (tables, WriteData whose last packet needs 0/1/2/many stuffing bytes, adaptation fields, WritePacket) on a SimWriter failing at Write call j, for EVERY j of the fault-free run, one-shot and permanent, (0,E) and short writes: the API call during which the Write failed must return an error wrapping the sentinel and n <= bytes accepted during it.",
   note="Trusted: SimReader/SimWriter fault delivery. The (n>0,E) reader form is used with sticky errors only (io.ReadFull semantics). Nothing is asserted about calls after the reported failure."),
 "C19": dict(engine="filters", cat="exploration", ref="3.11",
   text="Reference streams are demuxed with simulator-owned callbacks that log every invocation with a deep copy of its arguments. Skipper predicates (PID set, counter value, PUSI, adaptation-field flags, seeded per-packet decisions, stateful every-n-th, skip-all, skip-none): NextPacket and NextData sequences must equal those of the stream with the selected packets deleted by the PacketChannel, the predicate must be consulted once per packet in order with header and adaptation field as the library parses them. Parsers: observer (output unchanged; groups non-empty, single PID, and on fault-free streams exactly the generated units), replacer / per-PID partial replacer (output is exactly the substituted data), failing (error wraps the callback's error, other groups unaffected).",
   note="Trusted: reference multiplexer, PacketChannel deletion, logging callbacks. A failing parser never fails on PID 0; parser errors raised during the end-of-stream drain are logged by the library, not returned, which the property allows ('when one is returned')."),
 "C20": dict(engine="restart", cat="fault_enumeration", ref="3.12",
   text="Reference streams (PAT before PMTs, multi-section PSI units, PES units longer than 16 packets, and a crafted family where a PID is mid-unit after exactly 16k packets while another PID returns a datum per packet) are demuxed on a seekable SimReader with a seeded chunk plan and explicit or auto-detected size; for half of the streams Rewind is called after EVERY number j of NextData calls (0..total, exhaustive per stream), the rest run seeded scripts of repeated rewinds with NextPacket/NextData/mixed consumption. Rewind must return (0,nil) with the reader at offset 0 and the complete sequence after the last Rewind must equal a fresh Demuxer's.",
   note="Trusted: reference multiplexer; the fresh run of the same library is the reference (its own correctness is C02's subject). Scope: PAT precedes PMTs."),
}

NA = {
 "C10": "pure function of a byte string (checksum, associativity of a fold): no schedule, fault, I/O or history for a simulator to own; exhaustive/bit-level enumeration is the right tool and is not this technique",
 "C11": "bit layout of header/adaptation-field encode-decode: a pure codec pair with no nondeterminism or fault surface (its WritePacket partial-write aspect is covered by C04)",
 "C12": "PES header bit layout and Duration() arithmetic: pure functions of their input",
 "C13": "field-for-field table decode / PAT-PMT encode: pure functions of the section bytes",
 "C14": "descriptor codec and length arithmetic: pure functions (the wire-level consequence, PMT section_length/CRC, is checked under C09)",
 "C15": "MJD/BCD conversion: pure arithmetic over a finite domain; exhaustive enumeration, not simulation, decides it",
}

def main():
    commits = subprocess.run(["git","-C","/repo","log","--format=%h %s","--grep=^verif-hook"],capture_output=True,text=True).stdout.strip().splitlines()
    checks=[]
    for pid in sorted(CHECKS):
        c=CHECKS[pid]
        checks.append(dict(property_id=pid,
            quick_cmd=f"bin/check {pid} quick", thorough_cmd=f"bin/check {pid} thorough",
            evidence_file=f"/verif/evidence/{pid}.json",
            replay_cmd_template="bin/check replay {path}", engine=c["engine"],
            level_claimed=dict(category=c["cat"], text=c["text"], design_ref="DESIGN.md section "+c["ref"]),
            level_note=c["note"], technique=TECH))
    engines={}
    for pid,c in CHECKS.items():
        engines.setdefault(c["engine"],[]).append(pid)
    m=dict(version=1,
      setup_cmd="bin/check build race",
      hooks=dict(guard="verif (Go build tag)", enable="go build -tags verif (sim/go.mod replaces github.com/asticode/go-astits with /repo)",
                 baseline_off_cmd="cd /repo && GOFLAGS=-mod=mod GOPROXY=off GOSUMDB=off GOTOOLCHAIN=local go test -vet=off -count=1 ./...",
                 source_commits=[c.split()[0] for c in commits], add_only=True),
      engines=[dict(name=n,path="sim/props",serves_properties=sorted(ps),kind_free_text="deterministic simulation engine (seeded workload + simulated world + reference-model oracles)") for n,ps in sorted(engines.items())],
      checks=checks,
      notes="All checks: exit 0 held / exit 1 + 'VIOLATION property=<id> replay=<path>' / exit 2 harness trouble (never a verdict). VERIF_SEED selects the seed (default 1). Known findings: known_findings.jsonl. See DESIGN.md.",
      not_applicable=[dict(property_id=k,reason=v) for k,v in sorted(NA.items())])
    # properties neither claimed nor N/A yet are listed as not yet claimed
    props=[json.loads(l)["id"] for l in open(os.path.join(V,"properties.jsonl"))]
    for p in props:
        if p not in CHECKS and p not in NA:
            m["not_applicable"].append(dict(property_id=p,reason="engine designed (DESIGN.md section 3) but not built yet in this revision; not claimed until its check exists"))
    m["not_applicable"].sort(key=lambda x:x["property_id"])
    json.dump(m,open(os.path.join(V,"MANIFEST.json"),"w"),indent=1)
    print("checks:",len(checks),"n/a:",len(m["not_applicable"]))
main()
