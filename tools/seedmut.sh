#!/bin/bash
# tools/seedmut.sh <PROP> [<srcbase>=/tmp/mut] [<tag>=m] [evalmut args...]
# Evaluate the mutants a sub-agent left in <srcbase>/<PROP>/mutants/* against the property's
# quick check and record them under /verif/seeded/<PROP>-<tag><k>/.
P="$1"; SRC="${2:-/tmp/mut}"; TAG="${3:-m}"; shift; shift; shift
for d in $SRC/$P/mutants/*/; do
  k=$(basename "$d")
  id="$P-$TAG$k"
  mkdir -p /verif/seeded/$id
  cp "$d/patch.diff" "$d/demo_test.go" /verif/seeded/$id/ 2>/dev/null
  cp "$d/README.md" /verif/seeded/$id/README.md 2>/dev/null
  python3 /verif/tools/evalmut.py /verif/seeded/$id $P "$@" > /verif/seeded/$id/eval.json
  python3 - "$id" <<'PY'
import json,sys
id_=sys.argv[1]
e=json.load(open(f'/verif/seeded/{id_}/eval.json'))
ok=e.get('demo_passes_clean') and e.get('patch_applies') and e.get('suite_passes_mutated') and e.get('demo_fails_mutated')
caught={c:v for c,v in e.get('checks',{}).items() if v['exit']==1}
print(id_, 'VALID' if ok else 'INVALID', 'caught_by='+','.join(f"{c}[{';'.join(v['violations'][:2])}]" for c,v in caught.items()) if caught else 'MISSED', {c:v['exit'] for c,v in e.get('checks',{}).items()})
PY
done
