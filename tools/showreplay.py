#!/usr/bin/env python3
import json,sys
r=json.load(open(sys.argv[1]))
sc=r['scenario']
v=r.get('violation') or {}
print('VIOL',v.get('class'),v.get('sig'),(v.get('detail') or '')[:400])
if sc.get('model'):
    m=sc['model']
    for i,s in enumerate(m['streams']):
        print(' stream',i,'pid',hex(s['pid']),s['kind'],'cc0',s.get('cc0',0))
        for u in s['units']:
            d={k:v for k,v in u.items() if k not in('sections',)}
            if 'sections' in u: d['sections']=[ [k for k in x if k in('pat','pmt','sdt','nit','eit','tot')][0] for x in u['sections']]
            print('    ',json.dumps(d)[:300])
    print(' merge',m.get('merge'))
for k in sc:
    if k not in ('model','ops'): print(' ',k,json.dumps(sc[k])[:400])
if 'ops' in sc:
    for i,o in enumerate(sc['ops']): print('  ',i,json.dumps(o)[:220])
n=int(sys.argv[2]) if len(sys.argv)>2 else 30
print('\n'.join([l for l in r.get('events',[]) if ' reader ' not in l][-n:]))
