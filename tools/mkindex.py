#!/usr/bin/env python3
"""Writes /verif/seeded/INDEX.md from seeded/*/meta.json."""
import json, glob, os
rows=[]
for d in sorted(glob.glob('/verif/seeded/*/')):
    mp=os.path.join(d,'meta.json')
    if not os.path.exists(mp): continue
    m=json.load(open(mp))
    readme=m.get('needs_to_manifest','')
    first=' '.join(readme.split())[:300]
    ok=all(m['validated'].get(k) for k in ('demo_passes_on_clean_tree','patch_applies','existing_suite_passes_with_change','demo_fails_with_change'))
    rows.append((m['id'], m['breaks_property'], 'yes' if ok else 'NO', ', '.join(m['caught_by']) or '—', ', '.join(m['missed_by']) or '', first))
with open('/verif/seeded/INDEX.md','w') as f:
    f.write("# Seeded changes\n\nEach directory holds `patch.diff` (never committed to /repo), the sub-agent's `demo_test.go` and `README.md`, `eval.json` (raw evaluation) and `meta.json`.\n`validated` = the demo passes on the clean tree, the patch applies, the existing 160-test suite passes with it, the demo fails with it.\nChecks were run with `bin/check-at <scratch worktree with the patch> <Cxx> quick` and `VERIF_SEED` 1 and 2 (`C04@2` = check C04, seed 2).\n`-mK` = first wave, `-w2mK` = second wave (prompt asking for hard, multi-condition changes).\n\n| id | property | validated | caught by | missed by | what it is / needs |\n|---|---|---|---|---|---|\n")
    for r in rows:
        f.write("| %s | %s | %s | %s | %s | %s |\n" % tuple(x.replace('|','/').replace('\n',' ') for x in r))
print(len(rows),'entries')
