#!/usr/bin/env python3
"""Writes /verif/seeded/INDEX.md from seeded/*/meta.json."""
import json, glob, os
# changes that need an input or situation outside the property's scope (see DESIGN.md section 13)
NOT_CLAIMED={
 'C02-w6f9m2':'needs pointer_field 255: a first section starting outside the packet that announces it (ISO 13818-1 2.4.4.2 does not allow it)',
 'C16-w7m2':'needs a PacketsParser that keeps the slice it was handed beyond the call; whether that slice may be reused is not promised either way',
 'C19-w7m2':'needs a PAT/PMT section_length >= 1024, which ISO 13818-1 forbids',
 'C09-w10m2':'needs the decoding of a typed descriptor (local_time_offset with two entries) to be compared: descriptor codecs are property C14, not applicable to this technique; the reference streams carry user-defined descriptors only',
 'C16-w9m2':'needs a packet that repeats the counter of its predecessor but has another adaptation-field structure (with a PCR where the original has none): not a duplicate in the sense of ISO 13818-1 2.4.3.3, outside the conformant streams of the quantifier',
 'C19-w8m2':'null packets (PID 0x1FFF) are not units: whether they are handed to a PacketsParser is not promised',
}
rows=[]
for d in sorted(glob.glob('/verif/seeded/*/')):
    mp=os.path.join(d,'meta.json')
    if not os.path.exists(mp): continue
    m=json.load(open(mp))
    readme=m.get('needs_to_manifest','')
    first=' '.join(readme.split())[:300]
    ok=all(m['validated'].get(k) for k in ('demo_passes_on_clean_tree','patch_applies','existing_suite_passes_with_change','demo_fails_with_change'))
    missed=', '.join(m['missed_by']) or ''
    if m['id'] in NOT_CLAIMED and not m['caught_by']:
        missed += ' (not claimed: '+NOT_CLAIMED[m['id']]+')'
    rows.append((m['id'], m['breaks_property'], 'yes' if ok else 'NO', ', '.join(m['caught_by']) or '—', missed, first))
with open('/verif/seeded/INDEX.md','w') as f:
    f.write("# Seeded changes\n\nEach directory holds `patch.diff` (never committed to /repo), the sub-agent's `demo_test.go` and `README.md`, `eval.json` (raw evaluation) and `meta.json`.\n`validated` = the demo passes on the clean tree, the patch applies, the existing 160-test suite passes with it, the demo fails with it.\nChecks were run with `bin/check-at <scratch worktree with the patch> <Cxx> quick` and `VERIF_SEED` 1 and 2 (`C04@2` = check C04, seed 2).\n`-mK` = first wave, `-wNmK` = wave N (DESIGN.md section 13 describes the prompts), `-w6f<n>mK` = wave 6, regression of the n-th fix commit. A change listed under a neighbouring property's check (e.g. `C20@1` in a C06 row) is one whose effect is that property's subject.\n\n| id | property | validated | caught by | missed by | what it is / needs |\n|---|---|---|---|---|---|\n")
    for r in rows:
        f.write("| %s | %s | %s | %s | %s | %s |\n" % tuple(x.replace('|','/').replace('\n',' ') for x in r))
print(len(rows),'entries')
