#!/usr/bin/env python3
"""Evaluate one seeded change (mutant) against the checks.

usage: evalmut.py <mutant-dir> <property> [--checks C01,C05,...] [--tier quick] [--keep]

<mutant-dir> holds patch.diff and demo_test.go. Everything happens in a scratch git worktree
of /repo under /tmp (removed afterwards); /repo itself is never touched. Steps:
  1. demo test on the clean tree must PASS
  2. patch applies; the whole existing suite must PASS; the demo test must FAIL
  3. each requested check is run against the patched worktree (bin/check-at) and its verdict recorded
Prints one JSON object.
"""
import json, os, re, subprocess, sys, tempfile, shutil, time

ENV = dict(os.environ, GOFLAGS="-mod=mod", GOPROXY="off", GOSUMDB="off", GOTOOLCHAIN="local")
V = os.path.dirname(os.path.dirname(os.path.abspath(__file__)))

def sh(cmd, cwd=None, timeout=3600):
    p = subprocess.run(cmd, shell=True, cwd=cwd, env=ENV, capture_output=True, text=True, errors="replace", timeout=timeout)
    return p.returncode, p.stdout + p.stderr

def main():
    mdir, prop = sys.argv[1], sys.argv[2]
    checks, tier, seeds = [prop], "quick", ["1"]
    for i, a in enumerate(sys.argv):
        if a == "--checks": checks = sys.argv[i+1].split(",")
        if a == "--tier": tier = sys.argv[i+1]
        if a == "--seeds": seeds = sys.argv[i+1].split(",")
    extra = []
    for i, a in enumerate(sys.argv):
        if a == "--limit": extra = ["-limit", sys.argv[i+1]]
    res = {"mutant": mdir, "property": prop, "checks": {}}
    wt = tempfile.mkdtemp(prefix="evalmut.", dir="/tmp")
    os.rmdir(wt)
    rc, out = sh(f"git -C /repo worktree add -q {wt} HEAD")
    if rc: print(json.dumps({"error": out})); return
    try:
        demo = os.path.join(mdir, "demo_test.go")
        m = re.search(r"func (Test\w+)\(", open(demo).read())
        tname = m.group(1) if m else "Test"
        res["test"] = tname
        shutil.copy(demo, os.path.join(wt, "zz_demo_test.go"))
        rc, out = sh(f"go test -count=1 -run '^{tname}$' .", cwd=wt)
        res["demo_passes_clean"] = rc == 0
        os.remove(os.path.join(wt, "zz_demo_test.go"))
        rc, out = sh(f"git apply {os.path.abspath(os.path.join(mdir,'patch.diff'))}", cwd=wt)
        res["patch_applies"] = rc == 0
        if rc: res["apply_err"] = out[-400:]
        rc, out = sh("go build ./... && go test -count=1 .", cwd=wt)
        res["suite_passes_mutated"] = rc == 0
        if rc: res["suite_out"] = out[-600:]
        shutil.copy(demo, os.path.join(wt, "zz_demo_test.go"))
        rc, out = sh(f"go test -count=1 -run '^{tname}$' .", cwd=wt)
        res["demo_fails_mutated"] = rc != 0
        os.remove(os.path.join(wt, "zz_demo_test.go"))
        rc, out = sh("git diff --stat | tail -1", cwd=wt)
        res["diffstat"] = out.strip()
        for c in checks:
            for seed in seeds:
                t0 = time.time()
                env = dict(ENV, VERIF_SEED=seed)
                p = subprocess.run([os.path.join(V, "bin/check-at"), wt, c, tier] + extra, env=env, capture_output=True, text=True, errors="replace", timeout=7200)
                o = p.stdout + p.stderr
                viol = re.findall(r"class=(\S+) sig=(\S*)", o)
                key = c if len(seeds) == 1 else f"{c}@{seed}"
                res["checks"][key] = {"exit": p.returncode, "violations": sorted(set(f"{a}/{b}" for a, b in viol))[:8], "wall_s": round(time.time()-t0, 1)}
                m2 = re.search(r"out=(/tmp/checkat\.\w+)", o)
                if m2: shutil.rmtree(m2.group(1), ignore_errors=True)
                if p.returncode == 2: res["checks"][key]["tail"] = o[-500:]
    finally:
        sh(f"git -C /repo worktree remove --force {wt}")
    print(json.dumps(res))

main()
