#!/bin/bash
# tools/mutscore.sh <shard> <shards> <outfile>
# Mutation scoring of the checks (development tool, not a registered check): every syntactic
# mutation site of the files that anchor the claimed properties (sim/cmd/mutgen) is applied in
# a scratch worktree of /repo's HEAD; mutants that compile and survive the repository's own
# test suite are run against the quick tier of the checks relevant to the file until one
# reports a violation. One line per mutant: file id line kind desc => result.
# /repo is never touched. C16 is left out (race build per mutant is too slow).
SH="$1"; N="$2"; OUT="$3"
export GOFLAGS=-mod=mod GOPROXY=off GOSUMDB=off GOTOOLCHAIN=local CGO_ENABLED=1
V=/verif
SIM="${SIMDIR:-$V/sim}"
export GOCACHE="$V/.cache/go-build"
WT=/tmp/mutwt.$SH
git -C /repo worktree remove --force $WT 2>/dev/null
git -C /repo worktree add -q $WT HEAD || exit 2
B=/tmp/mutbin.$SH; mkdir -p $B
( cd $SIM && go build -o $B/mutgen ./cmd/mutgen ) || exit 2
sed "s#=> /repo#=> $WT#" $SIM/go.mod > $B/go.mod; cp $SIM/go.sum $B/go.sum; cp $V/known_findings.jsonl $B/
declare -A CHECKS=(
 [muxer.go]="C04 C17 C01 C18 C09"
 [packet.go]="C04 C01 C02 C03 C19"
 [packet_buffer.go]="C08 C03 C18 C20"
 [packet_pool.go]="C06 C07 C02 C20"
 [demuxer.go]="C02 C20 C19 C03 C18"
 [data.go]="C02 C03 C19 C09"
 [data_pes.go]="C01 C02 C03 C04"
 [data_psi.go]="C09 C02 C03 C17 C01"
 [program_map.go]="C02 C07 C20"
 [wrapping_counter.go]="C05 C17 C01"
)
g=0
for f in ${MUTFILES:-muxer.go demuxer.go packet.go packet_buffer.go packet_pool.go data.go data_pes.go data_psi.go program_map.go wrapping_counter.go}; do
  $B/mutgen -file /repo/$f -list > $B/sites.txt
  while IFS=$'\t' read -r id line kind desc; do
    g=$((g+1)); [ $((g % N)) -eq $SH ] || continue
    grep -q "^$f $id " "$OUT" 2>/dev/null && continue
    $B/mutgen -file /repo/$f -apply $id -o $WT/$f || { echo "$f $id $line $kind [$desc] => gen-error" >> "$OUT"; continue; }
    res=""
    if ! ( cd $WT && go build ./... ) >/dev/null 2>&1; then res="nocompile"
    elif ! ( cd $WT && timeout 180 go test -count=1 . ) >/dev/null 2>&1; then res="suite"
    else
      if ! ( cd $SIM && go build -modfile=$B/go.mod -tags verif -o $B/simctl ./cmd/simctl ) >/dev/null 2>&1; then res="sim-nocompile"
      else
        res="SURVIVED"
        for c in ${CHECKS[$f]}; do
          timeout 1200 $B/simctl check -prop $c -tier quick -verif $B > $B/out.txt 2>&1; rc=$?
          if [ $rc -eq 1 ]; then res="killed:$c $(grep -m1 -o 'class=[^ ]* sig=[^ ]*' $B/out.txt)"; break; fi
          if [ $rc -ne 0 ]; then res="SURVIVED(harness:$c:$rc)"; fi
        done
      fi
    fi
    echo "$f $id $line $kind [$desc] => $res" >> "$OUT"
    cp /repo/$f $WT/$f
  done < $B/sites.txt
done
git -C /repo worktree remove --force $WT
rm -rf $B
echo "shard $SH done" >> "$OUT"
