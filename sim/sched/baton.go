// Package sched is the tenant scheduler: N real goroutines running real library code are
// parked and released one at a time, so the execution is fully serialised and replayable.
//
// The hand-off uses one pipe per goroutine driven by raw read/write system calls inside
// //go:norace functions. That is deliberate: raw syscalls (unlike channels, sync, atomics,
// os.File or syscall.Read/Write) create no happens-before edge the Go race detector can see.
// A -race build of the same deterministic run therefore reports every pair of conflicting
// accesses two tenants make to shared memory, whatever the timing - the schedule is decided by
// the simulator, the conflict is judged by the detector.
package sched

import (
	"syscall"
	"unsafe"
)

// Pipe is a one-byte-message baton.
type Pipe struct{ r, w int }

func NewPipe() Pipe {
	var p [2]int
	if err := syscall.Pipe(p[:]); err != nil {
		panic("sched: pipe: " + err.Error())
	}
	return Pipe{p[0], p[1]}
}

func (p Pipe) Close() {
	syscall.Close(p.r)
	syscall.Close(p.w)
}

// Send writes one byte.
//
//go:norace
func (p Pipe) Send(b byte) {
	buf := [1]byte{b}
	for {
		n, _, e := syscall.Syscall(syscall.SYS_WRITE, uintptr(p.w), uintptr(unsafe.Pointer(&buf[0])), 1)
		if n == 1 {
			return
		}
		if e == syscall.EINTR || e == syscall.EAGAIN {
			continue
		}
		panic("sched: baton write failed")
	}
}

// Recv blocks until one byte arrives.
//
//go:norace
func (p Pipe) Recv() byte {
	var buf [1]byte
	for {
		n, _, e := syscall.Syscall(syscall.SYS_READ, uintptr(p.r), uintptr(unsafe.Pointer(&buf[0])), 1)
		if n == 1 {
			return buf[0]
		}
		if e == syscall.EINTR || e == syscall.EAGAIN {
			continue
		}
		panic("sched: baton read failed")
	}
}

// Codes a tenant sends to the scheduler when it parks.
const (
	SiteBeforeGet = 0
	SiteAfterGet  = 1
	SiteBeforePut = 2
	SiteAPI       = 3
	Finished      = 9
)

// S serialises N tenants.
type S struct {
	toSched  Pipe
	toTenant []Pipe
	current  int // written by the scheduler, read by the running tenant; only in norace code
}

func New(n int) *S {
	s := &S{toSched: NewPipe()}
	for i := 0; i < n; i++ {
		s.toTenant = append(s.toTenant, NewPipe())
	}
	return s
}

func (s *S) Close() {
	s.toSched.Close()
	for _, p := range s.toTenant {
		p.Close()
	}
}

// WaitTurn parks tenant i until the scheduler releases it (used once, at start).
//
//go:norace
func (s *S) WaitTurn(i int) { s.toTenant[i].Recv() }

// Yield is called by the running tenant (from library hook or at an API boundary): it reports
// the site and parks until released again.
//
//go:norace
func (s *S) Yield(site int) {
	i := s.current
	s.toSched.Send(byte(site))
	s.toTenant[i].Recv()
}

// Finish is the tenant's last message.
//
//go:norace
func (s *S) Finish() { s.toSched.Send(Finished) }

// Release lets tenant i run and waits for its next report.
//
//go:norace
func (s *S) Release(i int) byte {
	s.current = i
	s.toTenant[i].Send(1)
	return s.toSched.Recv()
}
