//go:build !race

package sched

// RaceBuild reports whether this binary was built with the race detector.
const RaceBuild = false
