package props

import (
	"context"
	"errors"
	"io"

	"verif/sim/core"
	"verif/sim/world"

	astits "github.com/asticode/go-astits"
)

// DResult is one NextData / NextPacket result with the reader state observed right after it.
type DResult struct {
	D      *astits.DemuxerData
	P      *astits.Packet
	Err    error
	Pos    int   // SimReader logical position after the call
	Pulled int64 // bytes pulled from the SimReader so far
	Reads  int64
}

// DemuxCfg selects the Demuxer configuration of a run.
type DemuxCfg struct {
	PacketSize int              `json:"packet_size"` // 0 = auto-detect
	Reader     world.ReaderPlan `json:"reader"`
}

func demuxOpts(cfg DemuxCfg, extra ...func(*astits.Demuxer)) []func(*astits.Demuxer) {
	var o []func(*astits.Demuxer)
	if cfg.PacketSize != 0 {
		o = append(o, astits.DemuxerOptPacketSize(cfg.PacketSize))
	}
	return append(o, extra...)
}

// DemuxData pulls NextData until ErrNoMorePackets (or maxCalls). Errors other than
// ErrNoMorePackets are recorded and the loop goes on, as a caller of the library would.
func DemuxData(data []byte, cfg DemuxCfg, log *core.Log, maxCalls int, extra ...func(*astits.Demuxer)) ([]DResult, *world.SimReader) {
	r, sr := world.NewReader(data, cfg.Reader, log)
	dmx := astits.NewDemuxer(context.Background(), r, demuxOpts(cfg, extra...)...)
	return pullData(dmx, sr, log, maxCalls), sr
}

func newDemuxer(r io.Reader, cfg DemuxCfg, extra ...func(*astits.Demuxer)) *astits.Demuxer {
	return astits.NewDemuxer(context.Background(), r, demuxOpts(cfg, extra...)...)
}

func pullData(dmx *astits.Demuxer, sr *world.SimReader, log *core.Log, maxCalls int) []DResult {
	var res []DResult
	for i := 0; i < maxCalls; i++ {
		d, err := dmx.NextData()
		res = append(res, DResult{D: d, Err: err, Pos: sr.Pos(), Pulled: sr.Pulled, Reads: sr.Reads})
		if d != nil {
			log.Add("demux", "data", d.PID, dataKind(d))
		} else {
			log.Add("demux", "err", errClass(err))
		}
		if errors.Is(err, astits.ErrNoMorePackets) {
			break
		}
	}
	return res
}

// DemuxPackets pulls NextPacket until ErrNoMorePackets (or maxCalls).
func DemuxPackets(data []byte, cfg DemuxCfg, log *core.Log, maxCalls int, extra ...func(*astits.Demuxer)) ([]DResult, *world.SimReader) {
	r, sr := world.NewReader(data, cfg.Reader, log)
	dmx := astits.NewDemuxer(context.Background(), r, demuxOpts(cfg, extra...)...)
	var res []DResult
	for i := 0; i < maxCalls; i++ {
		p, err := dmx.NextPacket()
		res = append(res, DResult{P: p, Err: err, Pos: sr.Pos(), Pulled: sr.Pulled, Reads: sr.Reads})
		if p != nil {
			log.Add("demux", "packet", p.Header.PID, p.Header.ContinuityCounter)
		} else {
			log.Add("demux", "perr", errClass(err))
		}
		if errors.Is(err, astits.ErrNoMorePackets) {
			break
		}
	}
	return res, sr
}

func dataKind(d *astits.DemuxerData) string {
	switch {
	case d.PES != nil:
		return "PES"
	case d.PAT != nil:
		return "PAT"
	case d.PMT != nil:
		return "PMT"
	case d.SDT != nil:
		return "SDT"
	case d.NIT != nil:
		return "NIT"
	case d.EIT != nil:
		return "EIT"
	case d.TOT != nil:
		return "TOT"
	}
	return "?"
}

// byPID groups the data of a result list per PID, in order; errs collects the errors.
func byPID(res []DResult) (m map[uint16][]*astits.DemuxerData, errs []error) {
	m = map[uint16][]*astits.DemuxerData{}
	for _, r := range res {
		if r.D != nil {
			m[r.D.PID] = append(m[r.D.PID], r.D)
		} else if r.Err != nil && !errors.Is(r.Err, astits.ErrNoMorePackets) {
			errs = append(errs, r.Err)
		}
	}
	return
}

// afSemantic renders the content of an adaptation field without the fields the parser
// derives (lengths, stuffing). An absent field and one holding only stuffing are the same.
func afSemantic(a *astits.PacketAdaptationField) string {
	if a == nil {
		return ""
	}
	if !a.DiscontinuityIndicator && !a.RandomAccessIndicator && !a.ElementaryStreamPriorityIndicator && !a.HasPCR && !a.HasOPCR &&
		!a.HasSplicingCountdown && !a.HasTransportPrivateData && !a.HasAdaptationExtensionField {
		return ""
	}
	return core.Dump(a, "Length", "StuffingLength", "IsOneByteStuffing", "TransportPrivateDataLength")
}

// pesSemantic renders a PES header without parser-derived fields.
func pesSemantic(h *astits.PESHeader) string {
	if h == nil {
		return "nil"
	}
	return core.Dump(h, "PacketLength", "HeaderLength", "HasOptionalFields", "MarkerBits", "Extension2Length")
}

var _ = io.EOF

// genReaderPlan draws a read schedule. minFirst > 0 forces the first chunks to be at least
// that large (used while a configuration is outside the scope of the property under test).
func genReaderPlan(r *core.PRNG, kinds []string) world.ReaderPlan {
	p := world.ReaderPlan{Kind: kinds[r.Intn(len(kinds))]}
	switch r.Pick(3, 2, 2, 2, 1) {
	case 0: // one big read
	case 1:
		p.Chunks = []int{r.Range(1, 400)}
	case 2:
		n := r.Range(2, 12)
		for i := 0; i < n; i++ {
			p.Chunks = append(p.Chunks, []int{1, 2, 3, 7, 47, 187, 188, 189, 192, 193, 376, 1000}[r.Intn(12)])
		}
	case 3:
		n := r.Range(2, 20)
		for i := 0; i < n; i++ {
			p.Chunks = append(p.Chunks, r.Range(1, 300))
		}
	default:
		p.Chunks = []int{1}
	}
	p.EOFWithData = r.Chance(1, 4)
	if p.Kind == "bufio" {
		p.BufioSize = []int{256, 300, 1024, 4096, 65536}[r.Intn(5)]
	}
	return p
}
