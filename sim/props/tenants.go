package props

import (
	"bytes"
	"context"
	"crypto/sha256"
	"encoding/json"
	"errors"
	"fmt"
	"io"
	"os"
	"os/exec"
	"reflect"
	"runtime"
	"strings"
	"sync"

	"verif/sim/core"
	"verif/sim/refts"
	"verif/sim/sched"
	"verif/sim/world"

	astits "github.com/asticode/go-astits"
)

// TenantSpec is the private workload of one tenant: its own Demuxer on its own stream, or its
// own Muxer with its own history.
type TenantSpec struct {
	Kind   string       `json:"kind"` // demux | mux
	Model  *refts.Model `json:"model,omitempty"`
	API    []string     `json:"api,omitempty"` // demux: cyclic list of "data" / "packet"
	Period int          `json:"period,omitempty"`
	Ops    []MuxOp      `json:"ops,omitempty"`
	// demux tenants: how the stream is framed and read (zero values: 188-byte packets, explicit
	// packet size, seekable reader, whole stream)
	Auto   bool   `json:"auto,omitempty"`   // packet size auto-detected
	K      int    `json:"k,omitempty"`      // packets carried in 188+K bytes
	Reader string `json:"reader,omitempty"` // seekable (default) | bufio | plain
	Trunc  int    `json:"trunc,omitempty"`  // > 0: the tenant's stream is cut after Trunc bytes (a short capture)
	// RewindAt > 0: the tenant calls Rewind once before its RewindAt-th call (seekable readers)
	RewindAt int `json:"rewind_at,omitempty"`
	// AFOnly > 0: that many adaptation-only packets carrying transport private data are inserted
	// into the tenant's stream (returned by NextPacket and kept by the tenant like any other)
	AFOnly int `json:"af_only,omitempty"`
	// FailWrite > 0 (mux tenants): the tenant's writer refuses its FailWrite-th Write call once
	FailWrite int `json:"fail_write,omitempty"`
}

// failOnceWriter refuses one Write call.
type failOnceWriter struct {
	w      io.Writer
	calls  int
	failAt int
}

func (f *failOnceWriter) Write(p []byte) (int, error) {
	f.calls++
	if f.calls == f.failAt {
		return 0, world.ErrInjected
	}
	return f.w.Write(p)
}

// SchedPlan decides who runs next at every yield.
type SchedPlan struct {
	Mode  string `json:"mode"` // rr | api | after-get | before-put | long | seeded
	Picks []int  `json:"picks"`
	Every int    `json:"every,omitempty"`
}

// TenantScenario (engine `tenants`, C16).
type TenantScenario struct {
	Tenants []TenantSpec   `json:"tenants"`
	Pool    world.PoolPlan `json:"pool"`
	Sched   SchedPlan      `json:"sched"`
	Race    bool           `json:"race,omitempty"` // additionally execute under the race detector build
	GC      bool           `json:"gc,omitempty"`   // force a garbage collection every 16th scheduler step (clears sync.Pool caches, runs finalizers)
}

type tenants struct{}

func init() { core.Register(tenants{}) }

func (tenants) Name() string    { return "tenants" }
func (tenants) Props() []string { return []string{"C16"} }
func (tenants) Runs(tier string) int64 {
	if tier == "thorough" {
		return 50000
	}
	return 700
}

func (tenants) Meta() core.EngineMeta {
	return core.EngineMeta{
		Rule:       "N in 2..8 (thorough: up to 64) tenants, each a real goroutine with its own Demuxer on its own reference stream or its own Muxer with its own history, share only what the package shares: the bytes pool, here backed by SimPool through the verif hook (LIFO/FIFO/seeded-pick/never-reuse; buffers poisoned on put and on get). The tenant scheduler releases exactly one goroutine at a time, switching at API-call boundaries and at the pool's before-get / after-get / before-put yield points according to the scenario (round-robin, API-only, switch-after-get, switch-before-put, long runs, seeded). Every returned Packet/DemuxerData is deep-dumped at delivery and re-compared by its owner after each of its later steps and at the end; WriteData payloads likewise; each tenant's result sequence must equal its solo run with a never-reusing private pool, and its solo run after the tenants that follow it must equal its solo run after the tenants that precede it (sequential schedules in both orders; two fifths of the demux tenants use 188+K framing, auto-detection, bufio/plain readers and captures cut short, so that per-process scratch state would show); pool bookkeeping must balance. One run in eight is re-executed by the -race build: hand-offs are raw pipe syscalls invisible to the detector, so any conflicting access by two tenants is reported whatever the timing; a report with a go-astits/go-astikit frame is a violation. distinct = (tenant kinds, N, pool policy, scheduler mode, reuse count class, switches-at-pool-sites class); non-trivial = the scheduler switched between tenants at least once.",
		Real:       []string{"astits.Demuxer", "astits.Muxer", "everything below them", "Go race detector (second pass)"},
		Stub:       []string{"SimPool (stub of sync.Pool behind the verif hook)", "tenant scheduler (baton hand-off)", "refts reference multiplexer", "per-tenant readers / writers"},
		FaultKinds: []string{"switch-at-api", "race-pass", "sequential-reverse-order"}, // pool-related kinds are reach probes: whether and where the library uses its pool is its own business
		Assumptions: []string{
			"preemption inside library code other than at the pool points is not simulated; what it could expose (unsynchronised shared memory) is what the happens-before-blind race pass reports without needing the interleaving to occur",
			"instances are never shared between goroutines (the library does not promise that)",
		},
		Levels: map[string]string{"C16": "exploration"},
	}
}

func (tenants) Decode(raw json.RawMessage) (any, error) {
	var sc TenantScenario
	err := json.Unmarshal(raw, &sc)
	return &sc, err
}

func genTenant(r *core.PRNG) TenantSpec {
	if k := r.Pick(5, 2, 3); k > 0 {
		// mux: its own Muxer history; pipeline: the same, with typed descriptors of every kind in
		// the PMT, whose output the tenant then demuxes with its own Demuxer
		t := TenantSpec{Kind: "mux", Period: []int{1, 2, 5}[r.Intn(3)]}
		if k == 2 {
			t.Kind = "pipeline"
		}
		pid := uint16(r.Range(0x100, 0x1f00))
		add := MuxOp{Op: "add", H: -1, PID: pid, Type: 0x1b}
		if k == 2 {
			nd := r.Range(1, 4)
			for i := 0; i < nd; i++ {
				add.Descs = append(add.Descs, DescSpec{Kind: "typed:" + TypedDescNames[r.Intn(len(TypedDescNames))], Seed: r.Uint64(), N: r.Range(1, 3)})
			}
		}
		t.Ops = []MuxOp{add, {Op: "setpcr", H: 0}}
		n := r.Range(1, 5)
		for i := 0; i < n; i++ {
			if r.Chance(1, 4) {
				pk := &PktSpec{PID: 0x1f00, CC: uint8(r.Intn(16)), HasPayload: true, PayloadLen: r.Range(1, 184), Tag: 50 + i}
				if r.Chance(1, 3) {
					pk.AF = genAF(r, 8, false)
					pk.PayloadLen = r.Range(1, 184-pk.AF.Size())
				}
				t.Ops = append(t.Ops, MuxOp{Op: "packet", H: -1, Pkt: pk})
				continue
			}
			ps := genPESSpec(r, r.Bool())
			op := MuxOp{Op: "data", H: 0, PES: &ps, Len: genLen(r, ps.HeaderSize(), 0, false), Tag: 1 + i}
			if r.Chance(1, 3) {
				op.AF = genAF(r, 8, false)
			}
			t.Ops = append(t.Ops, op)
		}
		if r.Chance(1, 4) {
			t.FailWrite = r.Range(1, 900)
		}
		return t
	}
	cfg := genStreamCfg(r)
	cfg.Straddle, cfg.BigPSI, cfg.BigPES = false, false, false
	cfg.UnitsMin, cfg.UnitsMax = 1, r.Range(1, 3)
	cfg.MaxPES = 500
	if cfg.ES > 2 {
		cfg.ES = 2
	}
	rew := r.Chance(1, 2)
	if rew {
		cfg.MultiSec, cfg.SI = true, true // units of several sections: data stay buffered between calls
	}
	t := TenantSpec{Kind: "demux", Model: GenModel(r, cfg)}
	if r.Chance(2, 5) {
		// other framings and readers, short captures: whatever a Demuxer keeps outside itself
		// (scratch buffers, caches) must not leak from one instance into another
		t.Auto = r.Bool()
		t.K = []int{0, 0, 4, 4, 1, 2, 3}[r.Intn(7)]
		t.Reader = []string{"seekable", "bufio", "plain"}[r.Intn(3)]
		if r.Chance(1, 3) {
			t.Trunc = []int{188 + t.K, 188 + t.K, r.Range(1, 187), r.Range(189, 192), 2*(188+t.K) - r.Range(1, 5)}[r.Intn(5)]
		}
	}
	if rew && (t.Reader == "" || t.Reader == "seekable") {
		t.RewindAt = r.Range(1, 14)
	}
	if r.Chance(1, 3) {
		t.AFOnly = r.Range(1, 4)
	}
	switch r.Pick(4, 1, 2) {
	case 0:
		t.API = []string{"data"}
	case 1:
		t.API = []string{"packet"}
	default:
		t.API = []string{"data", "packet", "data"}
	}
	return t
}

func (tenants) Generate(r *core.PRNG, tier string, idx int64) any {
	sc := &TenantScenario{}
	n := r.Range(2, 8)
	if tier == "thorough" && r.Chance(1, 20) {
		n = r.Range(9, 64)
	}
	for i := 0; i < n; i++ {
		sc.Tenants = append(sc.Tenants, genTenant(r))
	}
	sc.Pool.Policy = []string{"lifo", "lifo", "fifo", "pick", "never"}[r.Intn(5)]
	for i := 0; i < 16; i++ {
		sc.Pool.Picks = append(sc.Pool.Picks, r.Intn(8))
	}
	sc.Sched.Mode = []string{"rr", "api", "after-get", "before-put", "long", "seeded"}[r.Intn(6)]
	sc.Sched.Every = r.Range(2, 9)
	for i := 0; i < 64; i++ {
		sc.Sched.Picks = append(sc.Sched.Picks, r.Intn(64))
	}
	sc.Race = idx%8 == 0
	sc.GC = idx%4 == 1
	return sc
}

// tenantResult is what one tenant observed; it is only read by others after the run ended.
type tenantResult struct {
	keys     []string
	live     []any
	mutated  string
	payload  string
	panicMsg string
	outSum   string
}

func (t *tenantResult) recheck(window int) {
	if t.mutated != "" {
		return
	}
	from := 0
	if window > 0 && len(t.live) > window {
		from = len(t.live) - window
	}
	for k := from; k < len(t.live); k++ {
		if t.live[k] == nil {
			continue
		}
		if now := core.Dump(t.live[k]); now != t.keys[k] {
			t.mutated = fmt.Sprintf("result %d changed after delivery: was %s, is now %s", k, core.Short(t.keys[k], 300), core.Short(now, 300))
			return
		}
	}
}

// runTenant executes a tenant's workload on the calling goroutine. yield (may be nil) is
// called at every API-call boundary.
func runTenant(spec *TenantSpec, yield func()) (res *tenantResult) {
	res = &tenantResult{}
	defer func() {
		if r := recover(); r != nil {
			res.panicMsg = fmt.Sprint(r)
		}
	}()
	var muxed []byte
	if spec.Kind == "mux" || spec.Kind == "pipeline" {
		var buf bytes.Buffer
		period := spec.Period
		if period < 1 {
			period = 1
		}
		var w io.Writer = &buf
		if spec.FailWrite > 0 {
			w = &failOnceWriter{w: &buf, failAt: spec.FailWrite}
		}
		m := astits.NewMuxer(context.Background(), w, astits.MuxerOptTablesRetransmitPeriod(period))
		pids := map[int]uint16{}
		var descGuards []*guarded
		checkDesc := func(i int) {
			for _, g := range descGuards {
				if !g.intact() && res.payload == "" {
					res.payload = fmt.Sprintf("by call %d the Muxer had modified a byte slice of a caller-owned descriptor (or the bytes around it)", i)
				}
			}
		}
		for i := range spec.Ops {
			op := &spec.Ops[i]
			if yield != nil {
				yield()
			}
			switch op.Op {
			case "add":
				es := astits.PMTElementaryStream{ElementaryPID: op.PID, StreamType: astits.StreamType(op.Type)}
				for _, d := range op.Descs {
					es.ElementaryStreamDescriptors = append(es.ElementaryStreamDescriptors, d.ToAstits())
				}
				// descriptor byte slices stay owned by the caller for the life of the Muxer
				descGuards = append(descGuards, guardAllBytes(&es)...)
				err := m.AddElementaryStream(es)
				pids[i] = op.PID
				res.keys = append(res.keys, "add:"+errClass(err))
				res.live = append(res.live, nil)
			case "setpcr":
				m.SetPCRPID(pids[op.H])
			case "tables":
				n, err := m.WriteTables()
				res.keys = append(res.keys, fmt.Sprintf("tables:%d:%s", n, errClass(err)))
				res.live = append(res.live, nil)
				checkDesc(i)
			case "data":
				spec0 := PESSpec{}
				if op.PES != nil {
					spec0 = *op.PES
				}
				frame, payload := guardedPayload(op.Tag, op.Len)
				d := &astits.MuxerData{PID: pids[op.H], AdaptationField: AFToAstits(op.AF), PES: &astits.PESData{Data: payload, Header: spec0.ToAstits()}}
				// every other byte slice the caller hands over sits in a larger buffer of its own too
				var gs []*guarded
				if oh := d.PES.Header.OptionalHeader; oh != nil {
					gs = append(gs, guardSlice(&oh.PrivateData), guardSlice(&oh.Extension2Data))
				}
				if d.AdaptationField != nil {
					gs = append(gs, guardSlice(&d.AdaptationField.TransportPrivateData))
				}
				n, err := m.WriteData(d)
				res.keys = append(res.keys, fmt.Sprintf("data:%d:%s", n, errClass(err)))
				res.live = append(res.live, nil)
				if !guardIntact(frame, op.Tag, op.Len) && res.payload == "" {
					res.payload = fmt.Sprintf("WriteData call %d modified the caller's buffer (payload bytes or the bytes around them)", i)
				}
				for _, g := range gs {
					if !g.intact() && res.payload == "" {
						res.payload = fmt.Sprintf("WriteData call %d modified a byte slice of the caller's header / adaptation field (or the bytes around it)", i)
					}
				}
				checkDesc(i)
			case "packet":
				pk := op.Pkt.ToAstits()
				frame, payload := guardedPayload(op.Pkt.Tag, op.Pkt.PayloadLen)
				pk.Payload = payload
				var gs []*guarded
				if pk.AdaptationField != nil {
					gs = append(gs, guardSlice(&pk.AdaptationField.TransportPrivateData))
				}
				n, err := m.WritePacket(pk)
				for _, g := range gs {
					if !g.intact() && res.payload == "" {
						res.payload = fmt.Sprintf("WritePacket call %d modified a byte slice of the caller's adaptation field (or the bytes around it)", i)
					}
				}
				res.keys = append(res.keys, fmt.Sprintf("packet:%d:%s", n, errClass(err)))
				res.live = append(res.live, nil)
				if !guardIntact(frame, op.Pkt.Tag, op.Pkt.PayloadLen) && res.payload == "" {
					res.payload = fmt.Sprintf("WritePacket call %d modified the caller's buffer (payload bytes or the bytes around them)", i)
				}
			}
		}
		s := sha256.Sum256(buf.Bytes())
		res.outSum = fmt.Sprintf("%d:%x", buf.Len(), s[:8])
		if spec.Kind == "mux" || buf.Len()%188 != 0 || buf.Len() == 0 {
			return
		}
		muxed = append(muxed, buf.Bytes()...)
	}
	var data []byte
	npk := 0
	if muxed != nil {
		data, npk = muxed, len(muxed)/188
	} else {
		b, err := spec.Model.Build()
		if err != nil {
			return
		}
		pkts := b.Packets
		if spec.AFOnly > 0 && len(pkts) > 0 {
			var withAF [][]byte
			every := len(pkts)/spec.AFOnly + 1
			for i, raw := range pkts {
				withAF = append(withAF, raw)
				if i%every == every/2 {
					priv := make([]byte, 3+i%9)
					for k := range priv {
						priv[k] = byte(0xa0 + (i+k)%64)
					}
					q := &refts.Pkt{PID: b.Meta[i].PID, AFC: 2, CC: b.Meta[i].CC, AF: refts.StuffAF(&refts.AF{HasPrivate: true, Private: priv}, 184)}
					if enc, err := refts.EncodePacket(q); err == nil {
						withAF = append(withAF, enc)
					}
				}
			}
			pkts = withAF
		}
		data, npk = reframe(pkts, spec.K), len(pkts)
		if spec.Trunc > 0 && spec.Trunc < len(data) {
			data = data[:spec.Trunc]
		}
	}
	kind := spec.Reader
	if kind == "" || muxed != nil {
		kind = "seekable"
	}
	rd, _ := world.NewReader(data, world.ReaderPlan{Kind: kind}, nil)
	var opts []func(*astits.Demuxer)
	if !spec.Auto || muxed != nil {
		size := 188
		if muxed == nil {
			size += spec.K
		}
		opts = append(opts, astits.DemuxerOptPacketSize(size))
	}
	dmx := astits.NewDemuxer(context.Background(), rd, opts...)
	api := spec.API
	if len(api) == 0 {
		api = []string{"data"}
	}
	for i := 0; i < npk*4+16; i++ {
		if yield != nil {
			yield()
		}
		if spec.RewindAt > 0 && i == spec.RewindAt && kind == "seekable" {
			n, rerr := dmx.Rewind()
			res.keys = append(res.keys, fmt.Sprintf("rewind:%d:%s", n, errClass(rerr)))
			res.live = append(res.live, nil)
		}
		var err error
		if api[i%len(api)] == "packet" {
			var p *astits.Packet
			p, err = dmx.NextPacket()
			if p != nil {
				res.keys = append(res.keys, core.Dump(p))
				res.live = append(res.live, p)
			}
		} else {
			var d *astits.DemuxerData
			d, err = dmx.NextData()
			if d != nil {
				res.keys = append(res.keys, core.Dump(d))
				res.live = append(res.live, d)
			}
		}
		if err != nil {
			if errors.Is(err, astits.ErrNoMorePackets) {
				if len(api) == 1 || api[i%len(api)] == "data" {
					break
				}
				continue
			}
			res.keys = append(res.keys, "ERR:"+errClass(err))
			res.live = append(res.live, nil)
		}
		res.recheck(40)
	}
	res.recheck(0)
	return
}

type tenantRun struct {
	results  []*tenantResult
	pool     *world.SimPool
	switches map[byte]int
	steps    int
}

// runTenants executes the whole scenario under the scheduler.
func runTenants(sc *TenantScenario, log *core.Log) *tenantRun {
	n := len(sc.Tenants)
	tr := &tenantRun{results: make([]*tenantResult, n), switches: map[byte]int{}}
	s := sched.New(n)
	defer s.Close()
	tr.pool = world.NewSimPool(sc.Pool)
	astits.VerifSetPool(tr.pool, func(site int) { s.Yield(site) })
	defer astits.VerifSetPool(nil, nil)
	var wg sync.WaitGroup
	for i := 0; i < n; i++ {
		wg.Add(1)
		go func(i int) {
			defer wg.Done()
			s.WaitTurn(i)
			tr.results[i] = runTenant(&sc.Tenants[i], func() { s.Yield(sched.SiteAPI) })
			if tr.results[i] != nil {
				tr.results[i].recheck(0)
			}
			s.Finish()
		}(i)
	}
	done := make([]bool, n)
	alive := n
	pi := 0
	nextPick := func() int {
		p := 0
		if len(sc.Sched.Picks) > 0 {
			p = sc.Sched.Picks[pi%len(sc.Sched.Picks)]
			pi++
		}
		if p < 0 {
			p = -p
		}
		for k := 0; k < n; k++ {
			c := (p + k) % n
			if !done[c] {
				return c
			}
		}
		return -1
	}
	cur := nextPick()
	yields := 0
	every := sc.Sched.Every
	if every < 1 {
		every = 4
	}
	for alive > 0 && cur >= 0 {
		code := s.Release(cur)
		tr.steps++
		if sc.GC && tr.steps%16 == 0 {
			runtime.GC()
		}
		log.Add("sched", "ran", cur, code)
		if code == sched.Finished {
			done[cur] = true
			alive--
			cur = nextPick()
			continue
		}
		yields++
		sw := false
		switch sc.Sched.Mode {
		case "rr":
			sw = true
		case "api":
			sw = code == sched.SiteAPI
		case "after-get":
			sw = code == sched.SiteAfterGet || code == sched.SiteAPI
		case "before-put":
			sw = code == sched.SiteBeforePut || code == sched.SiteAPI
		case "long":
			sw = yields%every == 0
		default:
			p := 0
			if len(sc.Sched.Picks) > 0 {
				p = sc.Sched.Picks[(pi+yields)%len(sc.Sched.Picks)]
			}
			sw = p%3 == 0
		}
		if sw {
			nx := nextPick()
			if nx != cur {
				tr.switches[code]++
			}
			cur = nx
		}
	}
	wg.Wait()
	return tr
}

// execTenants is the in-process judgement: solo reference, scheduled run, comparisons.
func execTenants(sc *TenantScenario, out *core.Outcome) {
	n := len(sc.Tenants)
	if n == 0 {
		return
	}
	// solo reference: each tenant alone, private never-reusing pool, no scheduler
	solo := make([]*tenantResult, n)
	for i := range sc.Tenants {
		astits.VerifSetPool(world.NewSimPool(world.PoolPlan{Policy: "never"}), nil)
		solo[i] = runTenant(&sc.Tenants[i], nil)
		astits.VerifSetPool(nil, nil)
	}
	tr := runTenants(sc, out.Log)
	out.Steps = int64(tr.steps)
	// sequential schedule in the opposite order (the degenerate interleaving in which every
	// tenant finishes before the next starts): what a tenant gets must not depend on which
	// instances were used before it in the process
	rev := make([]*tenantResult, n)
	for i := n - 1; i >= 0; i-- {
		astits.VerifSetPool(world.NewSimPool(world.PoolPlan{Policy: "never"}), nil)
		rev[i] = runTenant(&sc.Tenants[i], nil)
		astits.VerifSetPool(nil, nil)
	}
	out.Fire("sequential-reverse-order")
	if tr.pool.Reuses > 0 {
		out.Probe("buffer-reuse-across-tenants")
		out.Probe("poison")
	}
	if tr.switches[sched.SiteAfterGet] > 0 {
		out.Probe("switch-after-get")
	}
	if tr.switches[sched.SiteBeforePut] > 0 {
		out.Probe("switch-before-put")
	}
	if tr.switches[sched.SiteAPI] > 0 {
		out.Fire("switch-at-api")
	}
	kinds := ""
	for i, t := range sc.Tenants {
		kinds += t.Kind[:1]
		r, s := tr.results[i], solo[i]
		if r == nil || s == nil {
			continue
		}
		if r.panicMsg != "" {
			out.Violate("C16", "tenant-panic", t.Kind, "tenant %d (%s) panicked under the shared pool: %s", i, t.Kind, r.panicMsg)
			continue
		}
		if r.mutated != "" {
			out.Violate("C16", "result-mutated-after-delivery", t.Kind, "tenant %d (%s): %s", i, t.Kind, r.mutated)
		}
		if s.mutated != "" {
			out.Violate("C16", "result-mutated-after-delivery", t.Kind+"-solo", "tenant %d (%s) running alone: %s", i, t.Kind, s.mutated)
		}
		if r.payload != "" {
			out.Violate("C16", "caller-payload-modified", "", "tenant %d: %s", i, r.payload)
		}
		if ok, msg := seqEq(s.keys, r.keys); !ok {
			out.Violate("C16", "tenants-interfere", t.Kind, "tenant %d (%s): results under the shared pool and schedule differ from its solo run: %s", i, t.Kind, msg)
		}
		if r.outSum != s.outSum {
			out.Violate("C16", "tenants-interfere", "mux-output", "tenant %d (mux): output %s differs from its solo run %s", i, r.outSum, s.outSum)
		}
		if v := rev[i]; v != nil && v.panicMsg == "" {
			if ok, msg := seqEq(s.keys, v.keys); !ok {
				out.Violate("C16", "tenants-interfere", "history-"+t.Kind, "tenant %d (%s): run alone after tenants %d.. its results differ from its run alone after tenants ..%d: %s", i, t.Kind, i+1, i-1, msg)
			} else if v.outSum != s.outSum {
				out.Violate("C16", "tenants-interfere", "history-mux-output", "tenant %d (mux): output depends on which instances were used before it", i)
			}
		}
		if t.Kind == "demux" && (t.Auto || t.K > 0 || t.Trunc > 0 || (t.Reader != "" && t.Reader != "seekable")) {
			out.Probe("demux-tenant-other-framing")
			if t.Trunc > 0 && t.Auto {
				out.Probe("demux-tenant-short-capture-auto")
			}
		}
	}
	if tr.pool.DoublePuts > 0 {
		out.Violate("C16", "pool-discipline", "double-put", "%d buffer(s) were put back twice", tr.pool.DoublePuts)
	}
	if o := tr.pool.Outstanding(); o != 0 {
		out.Violate("C16", "pool-discipline", "unbalanced", "%d pooled buffer(s) were taken and never returned (gets %d, puts %d)", o, tr.pool.Gets, tr.pool.Puts)
	}
	if n >= 2 && tr.switches[sched.SiteAPI]+tr.switches[sched.SiteAfterGet]+tr.switches[sched.SiteBeforePut]+tr.switches[sched.SiteBeforeGet] > 0 {
		sw := tr.switches[sched.SiteAfterGet] + tr.switches[sched.SiteBeforePut] + tr.switches[sched.SiteBeforeGet]
		out.FP(fmt.Sprintf("%s/%s/%s/r%s/s%s", kinds, sc.Pool.Policy, sc.Sched.Mode, bucket(tr.pool.Reuses), bucket(sw)))
	}
}

// TenantExecMain is the entry point of `simctl-race tenant-exec`: scenario on stdin, verdict
// on stdout; a data race makes the runtime print its report to stderr and exit 66.
func TenantExecMain() int {
	var sc TenantScenario
	if err := json.NewDecoder(os.Stdin).Decode(&sc); err != nil {
		fmt.Fprintln(os.Stderr, "tenant-exec:", err)
		return 2
	}
	out := core.NewOutcome()
	execTenants(&sc, out)
	b, _ := json.Marshal(out.Violations)
	fmt.Println(string(b))
	return 0
}

func (tenants) Execute(scAny any, keepLog bool) *core.Outcome {
	sc := scAny.(*TenantScenario)
	out := core.NewOutcome()
	out.Log = core.NewLog(keepLog)
	out.Evals = 1
	execTenants(sc, out)
	if sc.Race && !sched.RaceBuild {
		racePass(sc, out)
	}
	return out
}

// racePass re-executes the scenario in the -race build of this binary.
func racePass(sc *TenantScenario, out *core.Outcome) {
	exe, err := os.Executable()
	if err != nil {
		return
	}
	rexe := exe + "-race"
	if _, err := os.Stat(rexe); err != nil {
		out.Probe("race-binary-missing")
		return
	}
	raw, _ := json.Marshal(sc)
	cmd := exec.Command(rexe, "tenant-exec")
	cmd.Stdin = bytes.NewReader(raw)
	cmd.Env = append(os.Environ(), "GORACE=halt_on_error=1 atexit_sleep_ms=0", "GOMAXPROCS=4")
	var so, se bytes.Buffer
	cmd.Stdout, cmd.Stderr = &so, &se
	err = cmd.Run()
	out.Evals++
	out.Fire("race-pass")
	rep := se.String()
	if strings.Contains(rep, "WARNING: DATA RACE") {
		lib := false
		var frames []string
		for _, l := range strings.Split(rep, "\n") {
			t := strings.TrimSpace(l)
			if strings.HasPrefix(t, "github.com/asticode/go-astits.") || strings.HasPrefix(t, "github.com/asticode/go-astikit.") {
				lib = true
				f := strings.TrimSuffix(t, "()")
				if len(frames) < 2 && (len(frames) == 0 || frames[0] != f) {
					frames = append(frames, f[strings.LastIndex(f, "/")+1:])
				}
			}
		}
		if lib {
			out.Violate("C16", "data-race", strings.Join(frames, "|"), "the race detector reports conflicting accesses by two tenants in library code:\n%s", core.Short(rep, 3000))
		} else {
			out.Harness = "race report without library frames:\n" + core.Short(rep, 2500)
		}
		return
	}
	if err != nil {
		out.Harness = fmt.Sprintf("race build run failed: %v\n%s", err, core.Short(rep, 1500))
		return
	}
	var vs []core.Violation
	if json.Unmarshal(bytes.TrimSpace(so.Bytes()), &vs) == nil {
		for _, v := range vs {
			if v.Prop == "C16" {
				v.Sig += "(race-build)"
				out.Violations = append(out.Violations, v)
			}
		}
	}
}

func (tenants) Shrink(scAny any) []any {
	sc := scAny.(*TenantScenario)
	var out []any
	for i := range sc.Tenants {
		if len(sc.Tenants) > 1 {
			c := *sc
			c.Tenants = append(append([]TenantSpec{}, sc.Tenants[:i]...), sc.Tenants[i+1:]...)
			out = append(out, &c)
		}
	}
	for i, t := range sc.Tenants {
		if t.Kind == "demux" {
			mod := func(f func(x *TenantSpec)) {
				c := *sc
				c.Tenants = append([]TenantSpec{}, sc.Tenants...)
				f(&c.Tenants[i])
				out = append(out, &c)
			}
			if t.Reader != "" && t.Reader != "seekable" {
				mod(func(x *TenantSpec) { x.Reader = "" })
			}
			if t.Auto {
				mod(func(x *TenantSpec) { x.Auto = false })
			}
			if t.Trunc > 0 {
				mod(func(x *TenantSpec) { x.Trunc = 0 })
			}
			if t.K > 0 && t.Trunc == 0 {
				mod(func(x *TenantSpec) { x.K = 0 })
			}
		}
		if t.Kind == "demux" && t.Model != nil {
			for _, m := range shrinkModel(t.Model) {
				c := *sc
				c.Tenants = append([]TenantSpec{}, sc.Tenants...)
				c.Tenants[i].Model = m
				out = append(out, &c)
				if len(out) > 60 {
					break
				}
			}
		}
		if t.Kind == "mux" && len(t.Ops) > 3 {
			c := *sc
			c.Tenants = append([]TenantSpec{}, sc.Tenants...)
			c.Tenants[i].Ops = t.Ops[:len(t.Ops)-1]
			out = append(out, &c)
		}
	}
	if sc.Sched.Mode != "api" {
		c := *sc
		c.Sched.Mode = "api"
		out = append(out, &c)
	}
	if sc.Pool.Policy != "lifo" {
		c := *sc
		c.Pool.Policy = "lifo"
		out = append(out, &c)
	}
	return out
}

const guardLen = 24

// guardedPayload places the payload in the middle of a larger caller buffer: the slice handed
// to the library has spare capacity behind it, as a sub-slice of a frame buffer would.
func guardedPayload(tag, n int) (frame, payload []byte) {
	frame = make([]byte, guardLen+n+guardLen)
	for i := range frame {
		frame[i] = 0xEE
	}
	copy(frame[guardLen:], Payload(tag, n))
	return frame, frame[guardLen : guardLen+n]
}

func guardIntact(frame []byte, tag, n int) bool {
	for i := 0; i < guardLen; i++ {
		if frame[i] != 0xEE || frame[guardLen+n+i] != 0xEE {
			return false
		}
	}
	return bytes.Equal(frame[guardLen:guardLen+n], Payload(tag, n))
}

// guarded is a caller-owned byte slice placed inside a larger buffer with sentinel bytes
// before and after it (so the slice handed to the library has spare capacity).
type guarded struct {
	frame, content []byte
	n              int
}

// guardSlice re-homes *p (if non-empty) into a guarded frame.
func guardSlice(p *[]byte) *guarded {
	g := &guarded{}
	if p == nil || len(*p) == 0 {
		return g
	}
	g.n = len(*p)
	g.content = append([]byte{}, *p...)
	g.frame = make([]byte, guardLen+g.n+guardLen)
	for i := range g.frame {
		g.frame[i] = 0xEE
	}
	copy(g.frame[guardLen:], g.content)
	*p = g.frame[guardLen : guardLen+g.n]
	return g
}

func (g *guarded) intact() bool {
	if g.frame == nil {
		return true
	}
	for i := 0; i < guardLen; i++ {
		if g.frame[i] != 0xEE || g.frame[guardLen+g.n+i] != 0xEE {
			return false
		}
	}
	return bytes.Equal(g.frame[guardLen:guardLen+g.n], g.content)
}

// guardAllBytes re-homes every non-empty byte slice reachable from v (through pointers, structs
// and slices) into a guarded frame of its own and returns the guards.
func guardAllBytes(v any) []*guarded {
	var gs []*guarded
	var walk func(rv reflect.Value, depth int)
	walk = func(rv reflect.Value, depth int) {
		if depth > 12 || !rv.IsValid() {
			return
		}
		switch rv.Kind() {
		case reflect.Ptr, reflect.Interface:
			if !rv.IsNil() {
				walk(rv.Elem(), depth+1)
			}
		case reflect.Struct:
			for i := 0; i < rv.NumField(); i++ {
				if rv.Type().Field(i).PkgPath == "" {
					walk(rv.Field(i), depth+1)
				}
			}
		case reflect.Slice:
			if rv.Type().Elem().Kind() == reflect.Uint8 {
				if rv.Len() > 0 && rv.CanSet() {
					b := rv.Bytes()
					g := guardSlice(&b)
					rv.SetBytes(b)
					gs = append(gs, g)
				}
				return
			}
			for i := 0; i < rv.Len(); i++ {
				walk(rv.Index(i), depth+1)
			}
		}
	}
	walk(reflect.ValueOf(v), 0)
	return gs
}
