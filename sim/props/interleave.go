package props

import (
	"encoding/json"
	"fmt"
	"sort"

	"verif/sim/core"
	"verif/sim/refts"
	"verif/sim/world"
)

// Insertion is a packet inserted into the multiplex that belongs to no unit.
type Insertion struct {
	At   int    `json:"at"`   // inserted before this index of the base multiplex
	Kind string `json:"kind"` // null | afonly | tei
	PID  uint16 `json:"pid"`
	Seed uint64 `json:"seed"`
}

// Corruption confines damage to one PID.
type Corruption struct {
	Stream int    `json:"stream"` // index into Model.Streams (never the PAT)
	Mode   string `json:"mode"`   // garbage | drop | both
	Seed   uint64 `json:"seed"`
}

// InterleaveScenario: the same per-PID packet sequences under several multiplex schedules
// (engine `interleave`, C07).
type InterleaveScenario struct {
	Model     *refts.Model `json:"model"`
	AltMerges [][]int      `json:"alt_merges,omitempty"`
	Inserts   []Insertion  `json:"inserts,omitempty"`
	// PauseAt > 0: the insertion experiment is repeated on a growing source: the reader is at end
	// of file right before base packet PauseAt (behind whatever was inserted there) until the
	// caller has been told ErrNoMorePackets and polls again; with and without the inserted packets.
	PauseAt int `json:"pause_at,omitempty"`
	Corrupt   *Corruption  `json:"corrupt,omitempty"`
	// AllMerges: enumerate EVERY order-preserving merge of the per-PID queues (tiny models of
	// independent PIDs only; bounded-exhaustive part of the schedule space).
	AllMerges bool `json:"all_merges,omitempty"`
	// Dups: packets repeated (same counter, same bytes) right behind their original within
	// their own PID's sequence - part of that PID's packets like any other
	Dups []DupSpec `json:"dups,omitempty"`
}

// DupSpec names a packet of a stream's own sequence (by index) that is followed by a duplicate.
type DupSpec struct {
	Stream int `json:"stream"`
	Index  int `json:"index"`
}

type interleave struct{}

func init() { core.Register(interleave{}) }

func (interleave) Name() string    { return "interleave" }
func (interleave) Props() []string { return []string{"C07"} }
func (interleave) Runs(tier string) int64 {
	if tier == "thorough" {
		return 2000000
	}
	return 30000
}

func (interleave) Meta() core.EngineMeta {
	return core.EngineMeta{
		Rule:       "One run in five takes a tiny model of independent PIDs (2-3 streams, at most 9 packets) and executes EVERY order-preserving merge of its queues (bounded-exhaustive). Otherwise per-PID packet queues of a reference stream model are merged by the multiplex scheduler under the model's schedule and 2-3 further seeded order-preserving schedules (uniform, bursty, starvation, reverse priority; PAT and PMT PIDs keep their relative order), each PID is also demuxed alone (PMT PIDs together with PID 0), null / adaptation-only / transport-error packets are inserted at seeded positions, and one non-PAT PID is corrupted (payload garbage and/or packet loss). Per PID the delivered sequence must be identical in every variant. evaluations = demux executions; distinct = abstract fingerprint (stream-kind multiset, schedule modes, insertion kinds, corruption mode and kind of the corrupted PID); non-trivial = at least two PIDs. A third of the insertion experiments are repeated on a growing source: the reader is at end of file in front of a base packet (behind whatever was inserted there) until the caller has been told ErrNoMorePackets and polls again; the per-PID output with the inserted packets must equal the output without them on the same paused reader.",
		Real:       []string{"astits.Demuxer and everything below it (incl. the package-level sync.Pool)"},
		Stub:       []string{"refts reference multiplexer", "multiplex scheduler", "PacketChannel (insertions, single-PID corruption)", "SimReader (fault-free)"},
		FaultKinds: []string{"all-merges", "reschedule", "solo", "reader-eof-pause", "insert-null", "insert-afonly", "insert-tei", "corrupt-garbage", "corrupt-drop"},
		Assumptions: []string{
			"schedules preserve each PID's packet order and the relative order of PID 0 and PMT PIDs (a PMT PID is only recognised after a PAT listing it was delivered)",
			"errors returned by NextData are skipped when comparing (a corrupted PID or a transport-error packet with a garbage adaptation field may produce them); nothing across PIDs is compared",
		},
		Levels: map[string]string{"C07": "exploration"},
	}
}

func (interleave) Decode(raw json.RawMessage) (any, error) {
	var sc InterleaveScenario
	err := json.Unmarshal(raw, &sc)
	return &sc, err
}

// genAltMerge draws another order-preserving schedule that keeps the relative order of the
// PAT/PMT packets of the base schedule.
func genAltMerge(r *core.PRNG, m *refts.Model, base []int, mode int) []int {
	dep := map[int]bool{}
	for i, s := range m.Streams {
		if s.Kind == "PAT" || s.Kind == "PMT" {
			dep[i] = true
		}
	}
	// queue 0: dependent picks in base order; queues 1..: each other stream
	var q0 []int
	other := map[int]int{}
	var order []int
	for _, p := range base {
		if dep[p] {
			q0 = append(q0, p)
		} else {
			if _, ok := other[p]; !ok {
				order = append(order, p)
			}
			other[p]++
		}
	}
	queues := [][]int{q0}
	for _, s := range order {
		q := make([]int, other[s])
		for i := range q {
			q[i] = s
		}
		queues = append(queues, q)
	}
	var out []int
	cur, burst := -1, 0
	starved := r.Intn(len(queues))
	for {
		var cand []int
		for i, q := range queues {
			if len(q) > 0 {
				cand = append(cand, i)
			}
		}
		if len(cand) == 0 {
			break
		}
		var k int
		switch mode {
		case 1: // bursty
			if burst > 0 && cur >= 0 && len(queues[cur]) > 0 {
				k = cur
				burst--
			} else {
				k = cand[r.Intn(len(cand))]
				cur, burst = k, r.Range(2, 20)
			}
		case 2: // starvation
			k = cand[r.Intn(len(cand))]
			if k == starved && len(cand) > 1 {
				k = cand[(r.Intn(len(cand)-1)+1+indexOf(cand, starved))%len(cand)]
			}
		case 3: // reverse priority
			k = cand[len(cand)-1]
			if r.Chance(1, 5) {
				k = cand[r.Intn(len(cand))]
			}
		default:
			k = cand[r.Intn(len(cand))]
		}
		out = append(out, queues[k][0])
		queues[k] = queues[k][1:]
	}
	return out
}

func indexOf(l []int, v int) int {
	for i, x := range l {
		if x == v {
			return i
		}
	}
	return 0
}

func (interleave) Generate(r *core.PRNG, tier string, idx int64) any {
	if idx%5 == 0 {
		// tiny model of independent PIDs (no PAT/PMT dependency): 2-3 streams, at most 9 packets
		for try := 0; try < 50; try++ {
			cfg := StreamCfg{ES: r.Range(1, 2), SI: r.Bool(), UnitsMin: 1, UnitsMax: 2, MaxPES: 300, MultiSec: r.Bool(), NoAF: r.Bool()}
			m := GenModel(r, cfg)
			n := 0
			for _, c := range packetCounts(m) {
				n += c
			}
			if len(m.Streams) >= 2 && len(m.Streams) <= 3 && n <= 9 {
				return &InterleaveScenario{Model: m, AllMerges: true}
			}
		}
	}
	cfg := genStreamCfg(r)
	cfg.Straddle = false
	if cfg.ES+cfg.PMT < 2 {
		cfg.ES = 2
	}
	cfg.UnitsMin, cfg.UnitsMax = 1, r.Range(2, 4)
	sc := &InterleaveScenario{Model: GenModel(r, cfg)}
	b, err := sc.Model.Build()
	if err != nil {
		return sc
	}
	base := fullMerge(sc.Model, b)
	sc.Model.Merge = base
	n := r.Range(1, 3)
	for i := 0; i < n; i++ {
		sc.AltMerges = append(sc.AltMerges, genAltMerge(r, sc.Model, base, r.Intn(4)))
	}
	ni := r.Pick(1, 2, 2, 1) * 2
	for i := 0; i < ni; i++ {
		in := Insertion{At: r.Intn(len(base) + 1), Seed: r.Uint64()}
		switch r.Pick(2, 3, 3) {
		case 0:
			in.Kind, in.PID = "null", 0x1fff
		case 1:
			in.Kind = "afonly"
		default:
			in.Kind = "tei"
		}
		if in.Kind != "null" {
			if r.Chance(3, 4) {
				in.PID = sc.Model.Streams[r.Intn(len(sc.Model.Streams))].PID
			} else {
				in.PID = uint16(r.Range(0x20, 0x1ffe))
			}
		}
		sc.Inserts = append(sc.Inserts, in)
	}
	if ni > 0 && len(base) > 1 && r.Chance(1, 3) {
		sc.PauseAt = r.Range(1, len(base)-1)
		if r.Chance(1, 2) {
			sc.Inserts[0].At = sc.PauseAt // something neutral right in front of the pause
		}
	}
	if r.Chance(1, 3) {
		for n := r.Range(1, 2); n > 0; n-- {
			si := r.Intn(len(b.PerStream))
			if len(b.PerStream[si]) == 0 {
				continue
			}
			d := DupSpec{Stream: si, Index: r.Intn(len(b.PerStream[si]))}
			if r.Bool() {
				// the packet that completes a unit
				for k, mt := range b.PerStreamMeta[si] {
					if mt.Index == mt.Count-1 && (k >= d.Index || d.Index == 0) {
						d.Index = k
						break
					}
				}
			}
			sc.Dups = append(sc.Dups, d)
			// the base multiplex keeps the duplicate right behind its original; one more schedule
			// puts the next packet of another PID (the PAT's, if there is one left) between the two
			// every schedule gets the extra pick right behind the original's (otherwise the stream's
			// last packet would slide to the end of the multiplex, which for a PAT is a different stream)
			dupPick := func(picks []int) ([]int, int) {
				seen := 0
				for i, s := range picks {
					if s == si {
						if seen == d.Index {
							return append(append(append([]int{}, picks[:i+1]...), si), picks[i+1:]...), i
						}
						seen++
					}
				}
				return picks, -1
			}
			for k := range sc.AltMerges {
				sc.AltMerges[k], _ = dupPick(sc.AltMerges[k])
			}
			base2, pos := dupPick(sc.Model.Merge)
			if pos < 0 {
				continue
			}
			sc.Model.Merge = base2
			other := -1
			for pass := 0; pass < 2 && other < 0; pass++ {
				for j := pos + 2; j < len(base2); j++ {
					t := base2[j]
					if t == si || sc.Model.Streams[t].Kind == "PMT" {
						continue
					}
					if pass == 0 && sc.Model.Streams[t].Kind != "PAT" {
						continue
					}
					other = j
					break
				}
			}
			if other > 0 {
				alt := append([]int{}, base2[:pos+1]...)
				alt = append(alt, base2[other])
				alt = append(alt, base2[pos+1:other]...)
				alt = append(alt, base2[other+1:]...)
				sc.AltMerges = append(sc.AltMerges, alt)
			}
		}
	}
	var cands []int
	for i, s := range sc.Model.Streams {
		if s.Kind != "PAT" {
			cands = append(cands, i)
		}
	}
	if len(cands) > 0 {
		sc.Corrupt = &Corruption{Stream: cands[r.Intn(len(cands))], Mode: []string{"garbage", "drop", "both"}[r.Intn(3)], Seed: r.Uint64()}
	}
	return sc
}

// fullMerge materialises the model's schedule as a complete pick list.
func fullMerge(m *refts.Model, b *refts.Built) []int {
	out := make([]int, len(b.Meta))
	for i, mt := range b.Meta {
		out[i] = mt.Stream
	}
	return out
}

func perPIDFull(pk [][]byte, log *core.Log) map[uint16][]string {
	res, _ := DemuxData(refts.Join(pk), DemuxCfg{PacketSize: 188, Reader: world.ReaderPlan{Kind: "seekable"}}, log, len(pk)*4+16)
	out := map[uint16][]string{}
	for _, r := range res {
		if r.D != nil {
			out[r.D.PID] = append(out[r.D.PID], core.Dump(r.D))
		}
	}
	return out
}

// perPIDPaused: like perPIDFull on a reader that is at end of file in front of packet `at`
// until the caller has been told ErrNoMorePackets and polls again. (A source that grows again
// while the Demuxer is still handing out what it held would make the output depend on the
// drain order across PIDs, which nothing promises.)
func perPIDPaused(pk [][]byte, at int, log *core.Log) (map[uint16][]string, int) {
	cfg := DemuxCfg{PacketSize: 188, Reader: world.ReaderPlan{Kind: "seekable", EOFPauses: []int{at * 188}}}
	r, sr := world.NewReader(refts.Join(pk), cfg.Reader, log)
	dmx := newDemuxer(r, cfg)
	out := map[uint16][]string{}
	for round := 0; round < 3; round++ {
		for _, x := range pullData(dmx, sr, log, len(pk)*4+16) {
			if x.D != nil {
				out[x.D.PID] = append(out[x.D.PID], core.Dump(x.D))
			}
		}
		sr.Resume() // ErrNoMorePackets seen: everything pending has been handed out
	}
	return out, sr.PauseN
}

func seqEq(a, b []string) (bool, string) {
	if len(a) != len(b) {
		return false, fmt.Sprintf("%d data instead of %d", len(b), len(a))
	}
	for i := range a {
		if a[i] != b[i] {
			return false, fmt.Sprintf("datum %d differs: %s vs %s", i, core.Short(b[i], 160), core.Short(a[i], 160))
		}
	}
	return true, ""
}

func (interleave) Execute(scAny any, keepLog bool) *core.Outcome {
	sc := scAny.(*InterleaveScenario)
	out := core.NewOutcome()
	out.Log = core.NewLog(keepLog)
	b, err := sc.Model.Build()
	if err != nil || len(b.Packets) == 0 {
		out.Probe("model-unbuildable")
		return out
	}
	m := sc.Model
	if len(sc.Dups) > 0 {
		for _, d := range sc.Dups {
			if d.Stream < 0 || d.Stream >= len(b.PerStream) || d.Index < 0 || d.Index >= len(b.PerStream[d.Stream]) {
				continue
			}
			l, ml := b.PerStream[d.Stream], b.PerStreamMeta[d.Stream]
			l = append(l[:d.Index+1:d.Index+1], append([][]byte{l[d.Index]}, l[d.Index+1:]...)...)
			ml = append(ml[:d.Index+1:d.Index+1], append([]refts.PktMeta{ml[d.Index]}, ml[d.Index+1:]...)...)
			b.PerStream[d.Stream], b.PerStreamMeta[d.Stream] = l, ml
			out.Probe("duplicate-in-own-sequence")
		}
		b.Packets, b.Meta = refts.MergePackets(b.PerStream, b.PerStreamMeta, m.Merge)
	}
	out.Packets = int64(len(b.Packets))
	base := perPIDFull(b.Packets, out.Log)
	out.Evals++
	var pids []int
	for _, s := range m.Streams {
		pids = append(pids, int(s.PID))
	}
	sort.Ints(pids)
	compare := func(variant, sig string, got map[uint16][]string, only map[uint16]bool, except int) {
		for _, pi := range pids {
			pid := uint16(pi)
			if only != nil && !only[pid] {
				continue
			}
			if except >= 0 && m.Streams[except].PID == pid {
				continue
			}
			if ok, msg := seqEq(base[pid], got[pid]); !ok {
				out.Violate("C07", "pid-output-depends-on-"+variant, sig+kindOf(m, pid), "PID %#x (%s): output under %s differs from the base multiplex: %s", pid, kindOf(m, pid), variant, msg)
			}
		}
		for _, pid := range pidKeys(got) {
			if _, ok := base[pid]; !ok && len(got[pid]) > 0 && (only == nil || only[pid]) && !(except >= 0 && m.Streams[except].PID == pid) {
				out.Violate("C07", "pid-output-depends-on-"+variant, sig+"new-pid", "PID %#x delivers data under %s but none in the base multiplex", pid, variant)
			}
		}
	}
	fp := ""
	for _, s := range m.Streams {
		fp += s.Kind[:2]
	}
	// 0. every order-preserving merge (tiny models)
	if sc.AllMerges && !hasKind(m, "PMT") {
		counts := make([]int, len(b.PerStream))
		total := 0
		for i, l := range b.PerStream {
			counts[i] = len(l)
			total += len(l)
		}
		if total <= 10 {
			var rec func(prefix []int, left []int)
			n := 0
			rec = func(prefix []int, left []int) {
				if len(prefix) == total {
					n++
					pk, _ := refts.MergePackets(b.PerStream, b.PerStreamMeta, prefix)
					got := perPIDFull(pk, nil)
					out.Evals++
					pre := len(out.Violations)
					compare("schedule", "enum-", got, nil, -1)
					if len(out.Violations) > pre {
						out.Narrow(pre, &InterleaveScenario{Model: m, Dups: sc.Dups, AltMerges: [][]int{append([]int{}, prefix...)}})
					}
					return
				}
				for i := range left {
					if left[i] > 0 && len(out.Violations) == 0 {
						left[i]--
						rec(append(prefix, i), left)
						left[i]++
					}
				}
			}
			rec(nil, counts)
			out.Fire("all-merges")
			out.Probe(fmt.Sprintf("all-merges-%d-streams", len(counts)))
			fp += fmt.Sprintf("A%d", n/20)
		}
	}
	// 1. other schedules
	for k, am := range sc.AltMerges {
		pk, _ := refts.MergePackets(b.PerStream, b.PerStreamMeta, am)
		got := perPIDFull(pk, out.Log)
		out.Evals++
		out.Fire("reschedule")
		compare(fmt.Sprintf("schedule"), "", got, nil, -1)
		_ = k
	}
	// 2. every PID alone (PMT PIDs with the PAT)
	patIdx := -1
	for i, s := range m.Streams {
		if s.Kind == "PAT" {
			patIdx = i
		}
	}
	for i, s := range m.Streams {
		var picks []int
		only := map[uint16]bool{s.PID: true}
		if s.Kind == "PMT" && patIdx >= 0 {
			// keep the base order of PAT and this PMT
			for _, mt := range b.Meta {
				if mt.Stream == i || mt.Stream == patIdx {
					picks = append(picks, mt.Stream)
				}
			}
			var per [][][]byte
			var metas [][]refts.PktMeta
			per, metas = b.PerStream, b.PerStreamMeta
			pk, _ := mergeOnly(per, metas, picks)
			got := perPIDFull(pk, out.Log)
			out.Evals++
			out.Fire("solo")
			compare("solo", "", got, only, -1)
			continue
		}
		got := perPIDFull(b.PerStream[i], out.Log)
		out.Evals++
		out.Fire("solo")
		compare("solo", "", got, only, -1)
	}
	// 3. insertions
	if len(sc.Inserts) > 0 {
		ins := append([]Insertion{}, sc.Inserts...)
		sort.SliceStable(ins, func(a, c int) bool { return ins[a].At < ins[c].At })
		var pk [][]byte
		lastCC := map[uint16]uint8{}
		j := 0
		for i := 0; i <= len(b.Packets); i++ {
			for j < len(ins) && ins[j].At <= i {
				pk = append(pk, buildInsertion(ins[j], lastCC))
				out.Fire("insert-" + ins[j].Kind)
				fp += "i" + ins[j].Kind[:1]
				j++
			}
			if i < len(b.Packets) {
				pk = append(pk, b.Packets[i])
				lastCC[b.Meta[i].PID] = b.Meta[i].CC
			}
		}
		got := perPIDFull(pk, out.Log)
		out.Evals++
		compare("insertion", "", got, nil, -1)
		if pa := sc.PauseAt; pa > 0 && pa < len(b.Packets) {
			// the same on a source that reports end of file once in front of base packet pa
			npa := pa
			for _, in := range ins {
				if in.At <= pa {
					npa++
				}
			}
			bp, n1 := perPIDPaused(b.Packets, pa, nil)
			gp, n2 := perPIDPaused(pk, npa, out.Log)
			if n1 > 0 && n2 > 0 {
				out.Fire("reader-eof-pause")
				out.Evals++
				saved := base
				base = bp
				compare("insertion", "eof-pause-", gp, nil, -1)
				base = saved
				fp += "P"
			}
		}
	}
	// 4. corruption confined to one PID
	if c := sc.Corrupt; c != nil && c.Stream >= 0 && c.Stream < len(m.Streams) && m.Streams[c.Stream].Kind != "PAT" {
		r := core.NewPRNG(c.Seed)
		var pk [][]byte
		for i, p := range b.Packets {
			if b.Meta[i].Stream != c.Stream {
				pk = append(pk, p)
				continue
			}
			if (c.Mode == "drop" || c.Mode == "both") && r.Chance(1, 3) {
				out.Fire("corrupt-drop")
				continue
			}
			if c.Mode == "garbage" || c.Mode == "both" {
				q := append([]byte{}, p...)
				dp, err := refts.DecodePacket(p)
				if err == nil && dp.HasPayload() {
					off := refts.PacketSize - len(dp.Payload)
					g := r.Bytes(len(dp.Payload))
					copy(q[off:], g)
				}
				out.Fire("corrupt-garbage")
				pk = append(pk, q)
				continue
			}
			pk = append(pk, p)
		}
		got := perPIDFull(pk, out.Log)
		out.Evals++
		compare("corruption-of-another-pid", c.Mode+"-"+m.Streams[c.Stream].Kind+">", got, nil, c.Stream)
		fp += "c" + c.Mode + m.Streams[c.Stream].Kind
	}
	if len(m.Streams) >= 2 {
		out.FP(fmt.Sprintf("%x", fnvStr(fp+fmt.Sprint(len(sc.AltMerges)))))
	}
	out.Steps = out.Evals
	return out
}

// mergeOnly merges only the streams that appear in picks.
func mergeOnly(per [][][]byte, metas [][]refts.PktMeta, picks []int) (out [][]byte, meta []refts.PktMeta) {
	next := make([]int, len(per))
	for _, s := range picks {
		if next[s] < len(per[s]) {
			out = append(out, per[s][next[s]])
			meta = append(meta, metas[s][next[s]])
			next[s]++
		}
	}
	return
}

// buildInsertion renders a packet that carries no unit data.
func buildInsertion(in Insertion, lastCC map[uint16]uint8) []byte {
	r := core.NewPRNG(in.Seed)
	switch in.Kind {
	case "null":
		return refts.NullPacket(uint8(r.Intn(16)))
	case "afonly":
		a := &refts.AF{RAI: r.Bool(), ESPI: r.Bool()}
		if r.Bool() {
			a.PCR = genClock(r)
		}
		cc := lastCC[in.PID]
		// an adaptation-only packet carries no unit data whatever its flags: it may announce a
		// discontinuity, and a careless remultiplexer may have stamped any counter on it
		switch r.Pick(3, 1, 1) {
		case 1:
			a.Disc = true
		case 2:
			cc = uint8(r.Intn(16))
			a.Disc = r.Chance(1, 3)
		}
		p := &refts.Pkt{PID: in.PID, AFC: 2, CC: cc, AF: refts.StuffAF(a, 184)}
		raw, err := refts.EncodePacket(p)
		if err != nil {
			return refts.NullPacket(0)
		}
		return raw
	default: // tei: arbitrary bytes with transport_error_indicator set
		raw := r.Bytes(refts.PacketSize)
		raw[0] = 0x47
		raw[1] = 0x80 | raw[1]&0x60 | byte(in.PID>>8&0x1f)
		raw[2] = byte(in.PID)
		return raw
	}
}

func (interleave) Shrink(scAny any) []any {
	sc := scAny.(*InterleaveScenario)
	var out []any
	mk := func(f func(c *InterleaveScenario)) {
		c := *sc
		f(&c)
		out = append(out, &c)
	}
	if len(sc.AltMerges) > 0 {
		for i := range sc.AltMerges {
			i := i
			mk(func(c *InterleaveScenario) { c.AltMerges = [][]int{sc.AltMerges[i]}; c.Inserts = nil; c.Corrupt = nil })
		}
		mk(func(c *InterleaveScenario) { c.AltMerges = nil })
	}
	if len(sc.Inserts) > 0 {
		mk(func(c *InterleaveScenario) { c.Inserts = nil })
		for i := range sc.Inserts {
			i := i
			mk(func(c *InterleaveScenario) { c.Inserts = []Insertion{sc.Inserts[i]} })
		}
	}
	if sc.Corrupt != nil {
		mk(func(c *InterleaveScenario) { c.Corrupt = nil })
	}
	if len(sc.Dups) > 0 {
		mk(func(c *InterleaveScenario) { c.Dups = nil })
		for i := range sc.Dups {
			i := i
			mk(func(c *InterleaveScenario) { c.Dups = []DupSpec{sc.Dups[i]} })
		}
	}
	return out
}
