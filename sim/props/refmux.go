package props

import (
	"encoding/json"
	"fmt"

	"verif/sim/core"
	"verif/sim/refts"
	"verif/sim/world"
)

// RefMuxScenario: a reference-multiplexed stream demuxed by the real Demuxer (engine `refmux`, C02).
type RefMuxScenario struct {
	Model *refts.Model `json:"model"`
	Demux DemuxCfg     `json:"demux"`
}

type refmux struct{}

func init() { core.Register(refmux{}) }

func (refmux) Name() string    { return "refmux" }
func (refmux) Props() []string { return []string{"C02"} }
func (refmux) Runs(tier string) int64 {
	if tier == "thorough" {
		return 2000000
	}
	return 60000
}

func (refmux) Meta() core.EngineMeta {
	return core.EngineMeta{
		Rule:       "A random stream model (1..8 PIDs: PAT, PMT PIDs, ES PIDs with bounded and unbounded PES, SI PIDs 0x10/0x11/0x12/0x14; PSI units of 1..N sections over 1..6 packets; every unit carries a unique tag) is packetised by the independent reference multiplexer with seeded chunk sizes (1..184, 1-byte first/last chunks), adaptation-field stuffing or trailing 0xFF, pointer_field 0..17, and merged by the seeded multiplex scheduler (uniform/bursty/starvation/reverse); the real Demuxer reads it through a position-tracking SimReader. Distinct = abstract fingerprint: multiset of (unit kind, packets-per-unit class, first/last chunk class, pointer class, sections-per-unit, trailing-stuffing class) plus PID count and merge mode; non-trivial = at least two PIDs interleaved or a multi-packet unit.",
		Real:       []string{"astits.Demuxer and everything below it"},
		Stub:       []string{"refts reference multiplexer (PES/PSI encoders, packetiser, scheduler)", "SimReader (fault-free, position tracking)", "expected-output model (one datum per PES / per delivered table section)"},
		FaultKinds: []string{"chunk<184", "one-byte-chunk", "multi-section", "pointer>0", "exact-fit", "interleaved"},
		Assumptions: []string{
			"well-formed means: every section of a unit starts in the unit's first packet (a section starting later needs its own payload_unit_start packet); the PAT is delivered before the PMT PIDs it announces carry packets; PES payload bytes are in 0x02..0xFE",
			"sections of table types the library does not deliver (none generated here) are out of scope",
			"the no-read-ahead clause is checked on plain and seekable readers (a bufio.Reader reads ahead by design)",
		},
		Levels: map[string]string{"C02": "exploration"},
	}
}

func (refmux) Decode(raw json.RawMessage) (any, error) {
	var sc RefMuxScenario
	err := json.Unmarshal(raw, &sc)
	return &sc, err
}

func genStreamCfg(r *core.PRNG) StreamCfg {
	cfg := StreamCfg{UnitsMin: 1, UnitsMax: r.Range(1, 5), MultiSec: r.Chance(1, 2), Full184: r.Chance(1, 5), NoAF: r.Chance(1, 6), PATRepeat: r.Range(1, 3)}
	switch r.Pick(2, 3, 3, 1) {
	case 0:
		cfg.ES = 1
	case 1:
		cfg.ES, cfg.PMT = r.Range(1, 2), 1
	case 2:
		cfg.ES, cfg.PMT, cfg.SI = r.Range(1, 3), r.Range(1, 2), r.Bool()
	default:
		cfg.ES, cfg.PMT, cfg.SI = r.Range(2, 4), r.Range(1, 3), true
	}
	cfg.BigPES = r.Chance(1, 8)
	cfg.BigPSI = r.Chance(1, 4)
	cfg.MaxPES = []int{200, 600, 900, 2000}[r.Intn(4)]
	return cfg
}

func (refmux) Generate(r *core.PRNG, tier string, idx int64) any {
	cfg := genStreamCfg(r)
	if r.Chance(1, 25) {
		// spec-legal straddling sections: a separately flagged sub-population (known finding K01)
		cfg.Straddle, cfg.UnitsMin, cfg.UnitsMax = true, 2, 4
		if cfg.PMT == 0 {
			cfg.PMT = 1
		}
	}
	cfg.SplitPAT = cfg.PMT >= 2 && r.Chance(1, 4)
	cfg.PATMove = cfg.PMT >= 1 && cfg.PATRepeat >= 2 && !cfg.Straddle && r.Chance(1, 6)
	if idx%300 == 9 && cfg.ES > 0 {
		cfg.HugePES = true // a unit of more than a thousand packets
	}
	sc := &RefMuxScenario{Model: GenModel(r, cfg)}
	sc.Demux.PacketSize = 188
	sc.Demux.Reader = genReaderPlan(r, []string{"seekable", "plain"})
	if sc.Demux.Reader.Kind == "seekable" && r.Chance(1, 4) {
		sc.Demux.PacketSize = 0
	}
	return sc
}

type expDatum struct {
	key          string
	stream, unit int
	first        bool // first datum of its unit
	endOff       int  // byte offset just after the unit's last packet in the multiplex
}

// expectedWithUnits lists the expected data per PID with the unit each belongs to.
func expectedWithUnits(m *refts.Model, b *refts.Built) map[uint16][]expDatum {
	end := map[[2]int]int{}
	for j, mt := range b.Meta {
		if mt.Index == mt.Count-1 {
			end[[2]int{mt.Stream, mt.Unit}] = (j + 1) * refts.PacketSize
		}
	}
	out := map[uint16][]expDatum{}
	for si := range m.Streams {
		s := &m.Streams[si]
		for ui := range s.Units {
			for k, d := range ExpectedData(s.PID, &s.Units[ui]) {
				out[s.PID] = append(out[s.PID], expDatum{key: contentKey(d), stream: si, unit: ui, first: k == 0, endOff: end[[2]int{si, ui}]})
			}
		}
	}
	return out
}

func unitClass(u *refts.Unit) string {
	n := len(u.Chunks)
	pc := "1"
	switch {
	case n > 16:
		pc = ">16"
	case n > 6:
		pc = "7-16"
	case n > 1:
		pc = "2-6"
	}
	cc := func(c int) string {
		switch {
		case c == 1:
			return "1"
		case c == 184:
			return "f"
		case c < 8:
			return "s"
		}
		return "m"
	}
	k := "PES"
	if !u.IsPES() {
		k = fmt.Sprintf("PSI%d/p%d", len(u.Sections), min(u.Pointer, 2))
	} else if u.PES.Unbounded {
		k = "PESu"
	}
	return fmt.Sprintf("%s/%s/%s%s", k, pc, cc(u.Chunks[0]), cc(u.Chunks[n-1]))
}

func (refmux) Execute(scAny any, keepLog bool) *core.Outcome {
	sc := scAny.(*RefMuxScenario)
	out := core.NewOutcome()
	out.Log = core.NewLog(keepLog)
	out.Evals = 1
	b, err := sc.Model.Build()
	if err != nil {
		out.Probe("model-unbuildable") // a shrink candidate that is not a stream any more
		return out
	}
	data := refts.Join(b.Packets)
	out.Packets = int64(len(b.Packets))
	if sc.Demux.PacketSize == 0 && len(b.Packets) < 2 {
		// scope: auto-detection needs two sync bytes; shorter inputs belong to C03
		c := *sc
		c.Demux.PacketSize = 188
		sc = &c
	}
	classes := map[string]int{}
	multi := false
	for _, s := range sc.Model.Streams {
		for ui := range s.Units {
			u := &s.Units[ui]
			classes[unitClass(u)]++
			if len(u.Chunks) > 1 {
				multi = true
			}
			for k, c := range u.Chunks {
				if c < 184 {
					out.Fire("chunk<184")
				}
				if c == 1 && (k == 0 || k == len(u.Chunks)-1) {
					out.Fire("one-byte-chunk")
				}
			}
			if len(u.Sections) > 1 {
				out.Fire("multi-section")
			}
			if !u.IsPES() && u.Pointer > 0 {
				out.Fire("pointer>0")
			}
			if !u.IsPES() {
				tot := 0
				for _, c := range u.Chunks {
					tot += c
				}
				if tot == len(u.Bytes()) {
					out.Fire("exact-fit")
				}
				if len(u.Chunks) >= 6 {
					out.Probe("psi-unit>=6-packets")
				}
			}
		}
	}
	if len(sc.Model.Streams) > 1 {
		out.Fire("interleaved")
	}
	want := expectedWithUnits(sc.Model, b)
	res, _ := DemuxData(data, sc.Demux, out.Log, len(b.Packets)*4+16)
	out.Steps = int64(len(res))
	psiPID := map[uint16]bool{0: true}
	for _, s := range sc.Model.Streams {
		if s.Kind == "PMT" {
			psiPID[s.PID] = true
		}
	}
	// units whose tail travels in the next payload_unit_start packet (known finding K01)
	straddled := map[[2]int]bool{}
	nStraddled := 0
	for si := range sc.Model.Streams {
		us := sc.Model.Streams[si].Units
		for ui := 1; ui < len(us); ui++ {
			if us[ui].Straddle > 0 {
				straddled[[2]int{si, ui - 1}] = true
				nStraddled++
				out.Probe("straddling-section")
			}
		}
	}
	errBudget := nStraddled
	idx := map[uint16]int{}
	lastUnit := map[uint16][2]int{}
	lastReads := map[uint16]int64{}
	for ci, r := range res {
		if r.Err != nil {
			if errClass(r.Err) != "ErrNoMorePackets" {
				sig := ""
				if errBudget > 0 {
					// at most one error per straddled unit is attributed to the truncation of that unit
					errBudget--
					sig = "straddled-unit"
				}
				out.Violate("C02", "demux-error", sig, "call %d: NextData returned %v on a well-formed stream", ci, r.Err)
			}
			continue
		}
		d := r.D
		w := want[d.PID]
		k := idx[d.PID]
		idx[d.PID]++
		if k >= len(w) {
			out.Violate("C02", "unit-extra", dataKind(d), "PID %#x: datum %d (%s) delivered but the stream carries only %d", d.PID, k, dataKind(d), len(w))
			continue
		}
		if got := contentKey(d); got != w[k].key {
			// skip over data of straddled units (their loss is the known finding); anything else is judged
			j := k
			for j < len(w) && w[j].key != got && straddled[[2]int{w[j].stream, w[j].unit}] {
				out.Violate("C02", "unit-lost", "straddled-unit", "PID %#x datum %d: the section whose tail is carried in the next payload_unit_start packet was not delivered: %s", d.PID, j, core.Short(w[j].key, 300))
				j++
			}
			if j < len(w) && w[j].key == got {
				k = j
				idx[d.PID] = j + 1
			} else {
				cls := "unit-altered"
				for j := k + 1; j < len(w); j++ {
					if w[j].key == got {
						cls = "unit-lost"
					}
				}
				out.Violate("C02", cls, dataKind(d), "PID %#x datum %d: delivered %s, stream carries %s", d.PID, k, core.Short(got, 400), core.Short(w[k].key, 400))
				idx[d.PID] = len(w) + 1<<20 // stop judging this PID
				continue
			}
		}
		// (a straddled unit is complete only with the head of the next payload_unit_start packet:
		// "the unit's last packet" is not defined for it and the clause is not judged)
		if psiPID[d.PID] && sc.Demux.Reader.Kind != "bufio" && !straddled[[2]int{w[k].stream, w[k].unit}] {
			if w[k].first {
				if r.Pos != w[k].endOff {
					out.Violate("C02", "read-ahead", dataKind(d), "PID %#x datum %d: returned with the reader at offset %d, the unit's last packet ends at %d", d.PID, k, r.Pos, w[k].endOff)
				}
				out.Probe("no-read-ahead-checked")
			} else if lastUnit[d.PID] == [2]int{w[k].stream, w[k].unit} && r.Reads != lastReads[d.PID] {
				out.Violate("C02", "read-ahead", "buffered", "PID %#x datum %d: a further section of an already completed unit needed %d more Read calls", d.PID, k, r.Reads-lastReads[d.PID])
			}
			lastUnit[d.PID] = [2]int{w[k].stream, w[k].unit}
			lastReads[d.PID] = r.Reads
		}
	}
	for _, pid := range pidKeys(want) {
		w := want[pid]
		for idx[pid] < len(w) && straddled[[2]int{w[idx[pid]].stream, w[idx[pid]].unit}] {
			out.Violate("C02", "unit-lost", "straddled-unit", "PID %#x datum %d: the section whose tail is carried in the next payload_unit_start packet was not delivered", pid, idx[pid])
			idx[pid]++
		}
		if idx[pid] < len(w) {
			u := w[idx[pid]]
			cls := "unit-lost"
			sig := sc.Model.Streams[u.stream].Kind
			if idx[pid] == len(w)-1 || (len(w) > 0 && u.unit == w[len(w)-1].unit) {
				sig += "-last"
			}
			out.Violate("C02", cls, sig, "PID %#x: %d data delivered, stream carries %d; first missing: %s", pid, idx[pid], len(w), core.Short(u.key, 300))
		}
	}
	if len(res) > 0 {
		if last := res[len(res)-1]; errClass(last.Err) != "ErrNoMorePackets" {
			out.Violate("C02", "no-end", "", "ErrNoMorePackets not reached within %d calls", len(res))
		}
	}
	if multi || len(sc.Model.Streams) > 1 {
		out.FP(fmt.Sprintf("%x", fnvStr(core.Dump(classes)+fmt.Sprint(len(sc.Model.Streams), sc.Demux.PacketSize))))
	}
	return out
}

// shrinkModel proposes simpler stream models.
func shrinkModel(m *refts.Model) []*refts.Model {
	var out []*refts.Model
	clone := func() *refts.Model {
		var c refts.Model
		b, _ := json.Marshal(m)
		json.Unmarshal(b, &c)
		return &c
	}
	// drop a stream (never the PAT while PMTs exist)
	for i := range m.Streams {
		if m.Streams[i].Kind == "PAT" && len(m.Streams) > 1 {
			continue
		}
		c := clone()
		c.Streams = append(c.Streams[:i:i], c.Streams[i+1:]...)
		var mg []int
		for _, p := range c.Merge {
			switch {
			case p == i:
			case p > i:
				mg = append(mg, p-1)
			default:
				mg = append(mg, p)
			}
		}
		c.Merge = mg
		out = append(out, c)
	}
	// sequential merge
	if len(m.Merge) > 0 {
		c := clone()
		c.Merge = nil
		out = append(out, c)
	}
	// drop a unit
	for i := range m.Streams {
		for u := range m.Streams[i].Units {
			if len(m.Streams[i].Units) == 1 {
				continue
			}
			c := clone()
			us := c.Streams[i].Units
			c.Streams[i].Units = append(us[:u:u], us[u+1:]...)
			c.Merge = nil
			out = append(out, c)
		}
	}
	// simplify a unit
	for i := range m.Streams {
		for u := range m.Streams[i].Units {
			un := &m.Streams[i].Units[u]
			if un.IsPES() {
				if un.Len > 1 {
					for _, nl := range []int{1, un.Len / 2, un.Len - 1} {
						c := clone()
						cu := &c.Streams[i].Units[u]
						cu.Len = nl
						cu.AF = nil
						cu.Chunks = plainChunks(len(cu.Bytes()))
						c.Merge = nil
						out = append(out, c)
					}
				}
			} else if len(un.Sections) > 1 {
				for k := range un.Sections {
					c := clone()
					cu := &c.Streams[i].Units[u]
					cu.Sections = append(cu.Sections[:k:k], cu.Sections[k+1:]...)
					cu.AF = nil
					cu.Chunks = plainChunks(len(cu.Bytes()))
					c.Merge = nil
					out = append(out, c)
				}
			}
			plain := plainChunks(len(un.Bytes()))
			if fmt.Sprint(plain) != fmt.Sprint(un.Chunks) || un.AF != nil {
				c := clone()
				cu := &c.Streams[i].Units[u]
				cu.AF = nil
				cu.Chunks = plain
				c.Merge = nil
				out = append(out, c)
			}
		}
	}
	return out
}

func plainChunks(total int) []int {
	var cs []int
	for total > 0 {
		c := 184
		if c > total {
			c = total
		}
		cs = append(cs, c)
		total -= c
	}
	return cs
}

func (refmux) Shrink(scAny any) []any {
	sc := scAny.(*RefMuxScenario)
	var out []any
	for _, m := range shrinkModel(sc.Model) {
		out = append(out, &RefMuxScenario{Model: m, Demux: sc.Demux})
	}
	if len(sc.Demux.Reader.Chunks) > 0 || sc.Demux.Reader.EOFWithData {
		out = append(out, &RefMuxScenario{Model: sc.Model, Demux: DemuxCfg{PacketSize: sc.Demux.PacketSize, Reader: world.ReaderPlan{Kind: sc.Demux.Reader.Kind}}})
	}
	if sc.Demux.PacketSize == 0 {
		out = append(out, &RefMuxScenario{Model: sc.Model, Demux: DemuxCfg{PacketSize: 188, Reader: sc.Demux.Reader}})
	}
	return out
}
