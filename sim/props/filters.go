package props

import (
	"encoding/json"
	"errors"
	"fmt"
	"sort"
	"strings"

	"verif/sim/core"
	"verif/sim/refts"
	"verif/sim/world"

	astits "github.com/asticode/go-astits"
)

// SkipSpec is a PacketSkipper predicate family member.
type SkipSpec struct {
	Kind string   `json:"kind"` // pid | cc | pusi | af-rai | af-pcr | has-af | seq | nth | all | none
	PIDs []uint16 `json:"pids,omitempty"`
	CC   uint8    `json:"cc,omitempty"`
	Seq  []bool   `json:"seq,omitempty"` // per-call decisions (cyclic)
	N    int      `json:"n,omitempty"`
}

// ParserSpec is a PacketsParser family member.
type ParserSpec struct {
	Kind string   `json:"kind"` // observer | replacer | failing | partial
	Seed int      `json:"seed"`
	PIDs []uint16 `json:"pids,omitempty"` // partial: PIDs whose groups are replaced
}

// FilterScenario: Demuxer with simulator-owned callbacks (engine `filters`, C19).
type FilterScenario struct {
	Model   *refts.Model     `json:"model"`
	Skipper *SkipSpec        `json:"skipper,omitempty"`
	Parser  *ParserSpec      `json:"parser,omitempty"`
	Reader  world.ReaderPlan `json:"reader"`
	Inserts []Insertion      `json:"inserts,omitempty"` // null / adaptation-only packets added to the stream
	K       int              `json:"k,omitempty"`       // stream carried in 188+K byte packets (size given explicitly)
	// Pauses: packet indices before which the reader is at end of file (a growing source) until
	// the caller, told ErrNoMorePackets, polls again. Parser scenarios only.
	Pauses []int `json:"pauses,omitempty"`
}

var errParserSentinel = errors.New("sim: packets parser failure")

type filters struct{}

func init() { core.Register(filters{}) }

func (filters) Name() string    { return "filters" }
func (filters) Props() []string { return []string{"C19"} }
func (filters) Runs(tier string) int64 {
	if tier == "thorough" {
		return 2000000
	}
	return 30000
}

func (filters) Meta() core.EngineMeta {
	return core.EngineMeta{
		Rule:        "Reference streams are demuxed with simulator-owned callbacks. Skipper predicates: by PID set, continuity counter value, payload_unit_start, adaptation-field presence / random-access / PCR flags, seeded per-packet decision lists, stateful every-n-th, skip-all, skip-none; the reference is the same stream with the selected packets deleted by the PacketChannel and demuxed without skipper (NextPacket and NextData). Parsers: observer (skip=false, records groups), replacer (skip=true, returns 0..3 tagged data), partial replacer (per PID), failing (error on a seeded subset of groups). Every callback invocation is logged with a deep copy of its arguments. distinct = (skipper kind, parser kind, stream shape class, outcome counts class); non-trivial = the callback decided differently for at least two packets/groups. One parser scenario in five is also run on a reader that is at end of file at one to three packet boundaries before the end (a growing source) until the caller, told ErrNoMorePackets, polls again: no packet may reach the PacketsParser more often than the stream carries it.",
		Real:        []string{"astits.Demuxer and everything below it"},
		Stub:        []string{"refts reference multiplexer", "PacketChannel (deletion of the selected packets)", "logging PacketSkipper / PacketsParser callbacks", "SimReader (fault-free)"},
		FaultKinds:  []string{"skip-pid", "skip-cc", "skip-pusi", "skip-af", "skip-seq", "skip-nth", "skip-all", "skip-none", "parser-observer", "parser-replacer", "parser-partial", "parser-failing", "reader-eof-pause"},
		Assumptions: []string{"a failing parser never fails on PID 0 groups (PMT PIDs depend on the PAT having been delivered)"},
		Levels:      map[string]string{"C19": "exploration"},
	}
}

func (filters) Decode(raw json.RawMessage) (any, error) {
	var sc FilterScenario
	err := json.Unmarshal(raw, &sc)
	return &sc, err
}

func (filters) Generate(r *core.PRNG, tier string, idx int64) any {
	cfg := genStreamCfg(r)
	cfg.Straddle = false
	cfg.UnitsMin, cfg.UnitsMax = 1, r.Range(2, 4)
	cfg.BigPSI = false
	sc := &FilterScenario{Model: GenModel(r, cfg)}
	sc.Reader = genReaderPlan(r, []string{"seekable", "plain", "bufio"})
	if r.Chance(1, 2) {
		n := 0
		for _, c := range packetCounts(sc.Model) {
			n += c
		}
		k := r.Range(1, 4)
		for i := 0; i < k; i++ {
			in := Insertion{At: r.Intn(n + 1), Seed: r.Uint64(), Kind: "afonly", PID: sc.Model.Streams[r.Intn(len(sc.Model.Streams))].PID}
			if r.Chance(1, 3) {
				in.Kind, in.PID = "null", 0x1fff
			} else if idx%2 == 0 && r.Chance(1, 5) {
				in.Kind = "badsync" // skipper scenarios only
			}
			sc.Inserts = append(sc.Inserts, in)
		}
	}
	if r.Chance(1, 5) {
		sc.K = []int{4, 16, 1}[r.Intn(3)]
	}
	if idx%2 == 0 {
		s := &SkipSpec{}
		switch r.Pick(3, 2, 2, 3, 3, 2, 1, 1) {
		case 0:
			s.Kind = "pid"
			for _, st := range sc.Model.Streams {
				if r.Chance(1, 2) {
					s.PIDs = append(s.PIDs, st.PID)
				}
			}
			if len(s.PIDs) == 0 {
				s.PIDs = []uint16{sc.Model.Streams[r.Intn(len(sc.Model.Streams))].PID}
			}
		case 1:
			s.Kind, s.CC = "cc", uint8(r.Intn(16))
		case 2:
			s.Kind = "pusi"
		case 3:
			s.Kind = []string{"af-rai", "af-pcr", "has-af"}[r.Intn(3)]
		case 4:
			s.Kind = "seq"
			n := r.Range(2, 24)
			for i := 0; i < n; i++ {
				s.Seq = append(s.Seq, r.Chance(1, 3))
			}
		case 5:
			s.Kind, s.N = "nth", r.Range(2, 7)
		case 6:
			s.Kind = "all"
		default:
			s.Kind = "none"
		}
		sc.Skipper = s
		if r.Chance(1, 5) {
			sc.Parser = &ParserSpec{Kind: "observer", Seed: r.Intn(1000)}
		}
	} else {
		p := &ParserSpec{Kind: []string{"observer", "replacer", "partial", "failing"}[r.Intn(4)], Seed: r.Intn(1000)}
		if p.Kind == "partial" {
			for _, st := range sc.Model.Streams {
				if st.PID != 0 && r.Chance(1, 2) {
					p.PIDs = append(p.PIDs, st.PID)
				}
			}
		}
		sc.Parser = p
		if r.Chance(1, 5) {
			n := 0
			for _, c := range packetCounts(sc.Model) {
				n += c
			}
			n += len(sc.Inserts)
			for i, np := 0, r.Range(1, 3); i < np && n > 1; i++ {
				sc.Pauses = append(sc.Pauses, r.Range(1, n-1))
			}
			sort.Ints(sc.Pauses)
		}
	}
	return sc
}

// skipDecision evaluates a predicate on header/AF facts and the call index.
func (s *SkipSpec) decide(pid uint16, cc uint8, pusi, hasAF, rai, pcr bool, call int) bool {
	switch s.Kind {
	case "pid":
		for _, p := range s.PIDs {
			if p == pid {
				return true
			}
		}
		return false
	case "cc":
		return cc == s.CC
	case "pusi":
		return pusi
	case "af-rai":
		return hasAF && rai
	case "af-pcr":
		return hasAF && pcr
	case "has-af":
		return hasAF
	case "seq":
		if len(s.Seq) == 0 {
			return false
		}
		return s.Seq[call%len(s.Seq)]
	case "nth":
		if s.N < 1 {
			return false
		}
		return call%s.N == s.N-1
	case "all":
		return true
	}
	return false
}

type skipLog struct {
	hdr, af string
}

type groupRec struct {
	pid     uint16
	packets []string
	resAt   int // number of results delivered before this parser call
	mixed   bool
	empty   bool
	drain   bool // handed over by the end-of-stream drain
}

func (filters) Execute(scAny any, keepLog bool) *core.Outcome {
	sc := scAny.(*FilterScenario)
	out := core.NewOutcome()
	out.Log = core.NewLog(keepLog)
	b, err := sc.Model.Build()
	if err != nil || len(b.Packets) == 0 {
		out.Probe("model-unbuildable")
		return out
	}
	// null and adaptation-only packets (no payload) belong to no unit but are packets like any
	// other for the skipper
	pkts := b.Packets
	metas := b.Meta
	nbad := 0
	if len(sc.Inserts) > 0 {
		ins := append([]Insertion{}, sc.Inserts...)
		sort.SliceStable(ins, func(a, c int) bool { return ins[a].At < ins[c].At })
		pkts, metas = nil, nil
		lastCC := map[uint16]uint8{}
		j := 0
		for i := 0; i <= len(b.Packets); i++ {
			for j < len(ins) && ins[j].At <= i {
				if ins[j].Kind == "null" || ins[j].Kind == "afonly" {
					pkts = append(pkts, buildInsertion(ins[j], lastCC))
					metas = append(metas, refts.PktMeta{Stream: -1})
				}
				if ins[j].Kind == "badsync" {
					// 188 bytes that do not start with a sync byte: an error for NextPacket, with or
					// without skipper (the predicate is never consulted: there is nothing parsed to show it)
					raw := refts.NullPacket(0)
					raw[0] = 0x48
					pkts = append(pkts, raw)
					metas = append(metas, refts.PktMeta{Stream: -2})
					nbad++
				}
				j++
			}
			if i < len(b.Packets) {
				pkts = append(pkts, b.Packets[i])
				metas = append(metas, b.Meta[i])
				lastCC[b.Meta[i].PID] = b.Meta[i].CC
			}
		}
	}
	npk := len(pkts)
	out.Packets = int64(npk)
	k := sc.K
	if k < 0 || k > 64 {
		k = 0
	}
	if k > 0 {
		out.Fire("frame-188+k")
	}
	data := reframe(pkts, k)
	cfg := DemuxCfg{PacketSize: 188 + k, Reader: sc.Reader}
	plain := DemuxCfg{PacketSize: 188 + k, Reader: world.ReaderPlan{Kind: "seekable"}}
	shape := fmt.Sprint(len(sc.Model.Streams), npk > 12)

	// the library's own parse of every packet, without callbacks
	basePk, _ := DemuxPackets(data, plain, nil, npk+8)
	var hdrs, afs []string
	for _, r := range basePk {
		if r.P != nil {
			hdrs = append(hdrs, core.Dump(r.P.Header))
			afs = append(afs, core.Dump(r.P.AdaptationField))
		}
	}
	if len(hdrs) != npk-nbad {
		out.Probe("baseline-mismatch")
		return out
	}
	if nbad > 0 {
		out.Fire("unparsable-packet")
	}

	if len(pkts) > len(b.Packets) {
		out.Fire("payloadless-packets")
	}
	if s := sc.Skipper; s != nil {
		out.Fire("skip-" + map[string]string{"pid": "pid", "cc": "cc", "pusi": "pusi", "af-rai": "af", "af-pcr": "af", "has-af": "af", "seq": "seq", "nth": "nth", "all": "all", "none": "none"}[s.Kind])
		// reference: delete the selected packets
		var filtered [][]byte
		nskip := 0
		calls := 0
		for _, p := range pkts {
			dp, derr := refts.DecodePacket(p)
			if derr != nil {
				filtered = append(filtered, p) // not a packet: cannot be selected, predicate not consulted
				continue
			}
			i := calls // stateful predicates count consultations
			calls++
			rai, pcr := false, false
			if dp.AF != nil {
				rai, pcr = dp.AF.RAI, dp.AF.PCR != nil
			}
			if s.decide(dp.PID, dp.CC, dp.PUSI, dp.HasAF(), rai, pcr, i) {
				nskip++
				continue
			}
			filtered = append(filtered, p)
		}
		fdata := reframe(filtered, k)
		for _, api := range []string{"packet", "data"} {
			out.Evals++
			var logs []skipLog
			payloadSeen := false
			skipper := astits.DemuxerOptPacketSkipper(func(p *astits.Packet) bool {
				call := len(logs)
				logs = append(logs, skipLog{hdr: core.Dump(p.Header), af: core.Dump(p.AdaptationField)})
				if len(p.Payload) != 0 {
					payloadSeen = true
				}
				rai, pcr := false, false
				if p.AdaptationField != nil {
					rai, pcr = p.AdaptationField.RandomAccessIndicator, p.AdaptationField.HasPCR
				}
				return s.decide(p.Header.PID, p.Header.ContinuityCounter, p.Header.PayloadUnitStartIndicator, p.Header.HasAdaptationField, rai, pcr, call)
			})
			var got, want []string
			if api == "packet" {
				g, _ := DemuxPackets(data, cfg, out.Log, npk*2+16, skipper)
				w, _ := DemuxPackets(fdata, plain, nil, npk*2+16)
				for _, x := range g {
					if x.P != nil {
						got = append(got, core.Dump(x.P))
					} else {
						got = append(got, "ERR:"+errClass(x.Err))
					}
				}
				for _, x := range w {
					if x.P != nil {
						want = append(want, core.Dump(x.P))
					} else {
						want = append(want, "ERR:"+errClass(x.Err))
					}
				}
			} else {
				g, _ := DemuxData(data, cfg, out.Log, npk*4+16, skipper)
				w, _ := DemuxData(fdata, plain, nil, npk*4+16)
				for _, x := range g {
					got = append(got, resKey(x.D, x.Err))
				}
				for _, x := range w {
					want = append(want, resKey(x.D, x.Err))
				}
			}
			if ok, msg := seqEq(want, got); !ok {
				out.Violate("C19", "skipper-not-deletion", api+"/"+s.Kind, "Next%s with skipper %s (%d of %d packets selected) differs from the stream with those packets deleted: %s", api, s.Kind, nskip, npk, msg)
			}
			if len(logs) != npk-nbad {
				out.Violate("C19", "skipper-call-count", api, "skipper consulted %d times for %d packets (Next%s)", len(logs), npk-nbad, api)
			} else {
				for i := range logs {
					if logs[i].hdr != hdrs[i] || logs[i].af != afs[i] {
						out.Violate("C19", "skipper-arguments", api, "skipper call %d saw header %s af %s; packet %d of the stream parses to header %s af %s", i, logs[i].hdr, core.Short(logs[i].af, 200), i, hdrs[i], core.Short(afs[i], 200))
						break
					}
				}
			}
			_ = payloadSeen
		}
		if nskip > 0 && nskip < npk {
			out.FP(fmt.Sprintf("S%s/%s/%s", s.Kind, shape, sc.Reader.Kind))
		}
	}

	if p := sc.Parser; p != nil && (sc.Skipper == nil || p.Kind == "observer") {
		out.Fire("parser-" + p.Kind)
		out.Evals++
		// default output (no parser), with the skipper if any
		var extra []func(*astits.Demuxer)
		if s := sc.Skipper; s != nil {
			calls := 0
			extra = append(extra, astits.DemuxerOptPacketSkipper(func(pk *astits.Packet) bool {
				c := calls
				calls++
				rai, pcr := false, false
				if pk.AdaptationField != nil {
					rai, pcr = pk.AdaptationField.RandomAccessIndicator, pk.AdaptationField.HasPCR
				}
				return s.decide(pk.Header.PID, pk.Header.ContinuityCounter, pk.Header.PayloadUnitStartIndicator, pk.Header.HasAdaptationField, rai, pcr, c)
			}))
		}
		def, _ := DemuxData(data, plain, nil, npk*4+16, extra...)
		var defKeys []string
		for _, x := range def {
			defKeys = append(defKeys, resKey(x.D, x.Err))
		}
		// observer pass: groups and which results each group produced
		var groups []groupRec
		nres := 0
		var obsReader *world.SimReader
		observer := func(ps []*astits.Packet) ([]*astits.DemuxerData, bool, error) {
			g := groupRec{resAt: nres, empty: len(ps) == 0, drain: obsReader != nil && obsReader.EOFHits > 0}
			for i, pk := range ps {
				if i == 0 {
					g.pid = pk.Header.PID
				} else if pk.Header.PID != g.pid {
					g.mixed = true
				}
				g.packets = append(g.packets, core.Dump(pk))
			}
			groups = append(groups, g)
			return nil, false, nil
		}
		var extraO []func(*astits.Demuxer)
		if s := sc.Skipper; s != nil {
			calls := 0
			extraO = append(extraO, astits.DemuxerOptPacketSkipper(func(pk *astits.Packet) bool {
				c := calls
				calls++
				rai, pcr := false, false
				if pk.AdaptationField != nil {
					rai, pcr = pk.AdaptationField.RandomAccessIndicator, pk.AdaptationField.HasPCR
				}
				return s.decide(pk.Header.PID, pk.Header.ContinuityCounter, pk.Header.PayloadUnitStartIndicator, pk.Header.HasAdaptationField, rai, pcr, c)
			}))
		}
		extraO = append(extraO, astits.DemuxerOptPacketsParser(observer))
		// run manually to keep nres in step with deliveries
		// (read with one big read on a seekable reader so that "the reader reported EOF" is exactly
		// "the end-of-stream drain has begun"; the grouping does not depend on the reader)
		obs := runCounting(data, plain, out.Log, npk*4+16, &nres, &obsReader, extraO...)
		var obsKeys []string
		for _, x := range obs {
			obsKeys = append(obsKeys, resKey(x.D, x.Err))
		}
		if ok, msg := seqEq(defKeys, obsKeys); !ok {
			out.Violate("C19", "observer-changes-output", "", "a PacketsParser returning skip=false changed the output: %s", msg)
		}
		// group shape
		perPID := map[uint16][]string{}
		for gi, g := range groups {
			if g.empty {
				out.Violate("C19", "group-shape", "empty", "parser call %d received an empty group", gi)
			}
			if g.mixed {
				out.Violate("C19", "group-shape", "mixed-pid", "parser call %d received packets of several PIDs", gi)
			}
			perPID[g.pid] = append(perPID[g.pid], g.packets...)
		}
		if sc.Skipper == nil {
			// fault-free stream: the groups are exactly the generated units
			wantGroups := map[uint16][][]string{}
			for i, mt := range metas {
				if mt.Stream < 0 || basePk[i].P == nil {
					continue
				}
				pkd := core.Dump(basePk[i].P)
				l := wantGroups[mt.PID]
				if mt.Index == 0 {
					l = append(l, nil)
				}
				l[len(l)-1] = append(l[len(l)-1], pkd)
				wantGroups[mt.PID] = l
			}
			gotGroups := map[uint16][][]string{}
			for _, g := range groups {
				gotGroups[g.pid] = append(gotGroups[g.pid], g.packets)
			}
			for _, pid := range pidKeys(wantGroups) {
				wl := wantGroups[pid]
				gl := gotGroups[pid]
				if len(gl) != len(wl) {
					out.Violate("C19", "group-units", kindOf(sc.Model, pid), "PID %#x: parser saw %d groups, the stream carries %d units", pid, len(gl), len(wl))
					continue
				}
				for k := range wl {
					if ok, msg := seqEq(wl[k], gl[k]); !ok {
						out.Violate("C19", "group-units", kindOf(sc.Model, pid), "PID %#x group %d is not the packets of unit %d in arrival order: %s", pid, k, k, msg)
						break
					}
				}
			}
		}
		// the other parser kinds
		switch p.Kind {
		case "replacer", "partial":
			out.Evals++
			var wantSeq []string
			call := 0
			replaced := 0
			// One parser in five answers every unit with the very same slice (a parser is free to
			// keep and reuse what it returns): the Demuxer must not write into it.
			var shared []*astits.DemuxerData
			var sharedKeys []string
			if p.Seed%5 == 0 {
				for i := 0; i < 2+p.Seed%2; i++ {
					d := &astits.DemuxerData{PID: 0x1ff0, PES: &astits.PESData{Data: []byte{0xee, byte(i), byte(p.Seed)}, Header: &astits.PESHeader{StreamID: 0xbf}}}
					shared = append(shared, d)
					sharedKeys = append(sharedKeys, core.Dump(d))
				}
				out.Probe("replacer-reusing-its-slice")
			}
			repl := func(ps []*astits.Packet) ([]*astits.DemuxerData, bool, error) {
				k := call
				call++
				if len(ps) == 0 {
					return nil, false, nil
				}
				pid := ps[0].Header.PID
				if p.Kind == "partial" {
					in := false
					for _, x := range p.PIDs {
						if x == pid {
							in = true
						}
					}
					if !in {
						return nil, false, nil
					}
				}
				replaced++
				if shared != nil {
					return shared, true, nil
				}
				n := (p.Seed + k) % 4
				var ds []*astits.DemuxerData
				for i := 0; i < n; i++ {
					ds = append(ds, &astits.DemuxerData{PID: pid, PES: &astits.PESData{Data: []byte{byte(k), byte(i), byte(p.Seed)}, Header: &astits.PESHeader{StreamID: 0xbf}}})
				}
				return ds, true, nil
			}
			got, _ := DemuxData(data, cfg, out.Log, npk*4+16, astits.DemuxerOptPacketsParser(repl))
			// expected: for each group in observer order, either its default results or the replacement
			perGroup := groupResults(groups, obs)
			for gi, g := range groups {
				isRepl := p.Kind == "replacer"
				if p.Kind == "partial" {
					for _, x := range p.PIDs {
						if x == g.pid {
							isRepl = true
						}
					}
				}
				if isRepl && shared != nil {
					wantSeq = append(wantSeq, sharedKeys...)
				} else if isRepl {
					n := (p.Seed + gi) % 4
					for i := 0; i < n; i++ {
						wantSeq = append(wantSeq, core.Dump(&astits.DemuxerData{PID: g.pid, PES: &astits.PESData{Data: []byte{byte(gi), byte(i), byte(p.Seed)}, Header: &astits.PESHeader{StreamID: 0xbf}}}))
					}
				} else {
					for _, x := range perGroup[gi] {
						if x.D != nil {
							wantSeq = append(wantSeq, resKey(x.D, x.Err))
						}
					}
				}
			}
			var gotSeq []string
			for _, x := range got {
				if x.D != nil {
					gotSeq = append(gotSeq, resKey(x.D, x.Err))
				} else if errClass(x.Err) != "ErrNoMorePackets" {
					gotSeq = append(gotSeq, "ERR:"+errClass(x.Err))
				}
			}
			// With a replacer on PID 0 the PAT is never parsed, so PMT PIDs are grouped differently;
			// the comparison is exact only when grouping cannot change.
			groupingStable := p.Kind == "replacer" && !hasKind(sc.Model, "PMT") || p.Kind == "partial"
			if p.Kind == "replacer" && hasKind(sc.Model, "PMT") {
				// still: the output is exactly what the parser returned, in order
				wantSeq = nil
				call2 := 0
				var ret []string
				repl2 := func(ps []*astits.Packet) ([]*astits.DemuxerData, bool, error) {
					ds, skip, err := repl(ps)
					for _, d := range ds {
						ret = append(ret, core.Dump(d))
					}
					call2++
					return ds, skip, err
				}
				call = 0
				got2, _ := DemuxData(data, cfg, nil, npk*4+16, astits.DemuxerOptPacketsParser(repl2))
				gotSeq = nil
				for _, x := range got2 {
					if x.D != nil {
						gotSeq = append(gotSeq, resKey(x.D, x.Err))
					} else if errClass(x.Err) != "ErrNoMorePackets" {
						gotSeq = append(gotSeq, "ERR:"+errClass(x.Err))
					}
				}
				wantSeq = ret
				groupingStable = true
			}
			if groupingStable {
				if ok, msg := seqEq(wantSeq, gotSeq); !ok {
					out.Violate("C19", "replacer-output", p.Kind, "with a %s parser the output is not exactly the substituted data in order: %s", p.Kind, msg)
				}
			}
			if replaced > 0 {
				out.FP(fmt.Sprintf("P%s/%s/%d", p.Kind, shape, min(replaced, 4)))
			}
		case "failing":
			out.Evals++
			call := 0
			failed := map[int]bool{}
			fail := func(ps []*astits.Packet) ([]*astits.DemuxerData, bool, error) {
				k := call
				call++
				if len(ps) > 0 && ps[0].Header.PID != 0 && (k+p.Seed)%3 == 0 {
					failed[k] = true
					return nil, false, fmt.Errorf("group %d: %w", k, errParserSentinel)
				}
				return nil, false, nil
			}
			got, _ := DemuxData(data, cfg, out.Log, npk*4+16, astits.DemuxerOptPacketsParser(fail))
			var wantSeq, gotSeq []string
			eofDrainErrs := 0
			perGroup := groupResults(groups, obs)
			for gi, g := range groups {
				if g.pid != 0 && (gi+p.Seed)%3 == 0 {
					// The error of a group flushed by the end-of-stream drain may be returned or only
					// logged (the property does not say; the drain goes on either way): optional entry.
					if g.drain {
						eofDrainErrs++
						wantSeq = append(wantSeq, "?ERR:parser")
					} else {
						wantSeq = append(wantSeq, "ERR:parser")
					}
					continue
				}
				for _, x := range perGroup[gi] {
					if errClass(x.Err) != "ErrNoMorePackets" {
						wantSeq = append(wantSeq, resKey(x.D, x.Err))
					}
				}
			}
			for _, x := range got {
				switch {
				case x.D != nil:
					gotSeq = append(gotSeq, resKey(x.D, x.Err))
				case errors.Is(x.Err, errParserSentinel):
					gotSeq = append(gotSeq, "ERR:parser")
				case errClass(x.Err) != "ErrNoMorePackets":
					gotSeq = append(gotSeq, "ERR:"+errClass(x.Err))
				}
			}
			// resolve the optional entries against what was returned
			{
				var res []string
				j := 0
				for _, w := range wantSeq {
					if strings.HasPrefix(w, "?") {
						if j < len(gotSeq) && gotSeq[j] == w[1:] {
							res = append(res, w[1:])
							j++
						}
						continue
					}
					res = append(res, w)
					j++
				}
				wantSeq = res
			}
			wantNoDrain := wantSeq
			if ok, msg := seqEq(wantNoDrain, gotSeq); !ok {
				out.Violate("C19", "failing-parser", "", "with a parser failing on %d groups the results are not 'error for those groups, default output for the others': %s", len(failed), msg)
			}
			if len(failed) > 0 {
				out.FP(fmt.Sprintf("Pfailing/%s/%d/%d", shape, min(len(failed), 4), min(eofDrainErrs, 2)))
			}
		default:
			if len(groups) > 1 {
				out.FP(fmt.Sprintf("Pobserver/%s/%v", shape, sc.Skipper != nil))
			}
		}
	}
	if len(sc.Pauses) > 0 && sc.Parser != nil {
		// A source that reports end of file and then grows: whatever the Demuxer makes of the
		// pause (flush what is pending and carry on, or stay at ErrNoMorePackets), no packet may
		// reach the PacketsParser more often than the stream carries it ("each unit exactly once").
		out.Evals++
		pcfg := cfg
		last := -1
		for _, pi := range sc.Pauses {
			if pi > last && pi > 0 && pi < npk {
				pcfg.Reader.EOFPauses = append(pcfg.Reader.EOFPauses, pi*(188+k))
				last = pi
			}
		}
		inStream := map[string]int{}
		for _, r := range basePk {
			if r.P != nil {
				inStream[core.Dump(r.P)]++
			}
		}
		handed := map[string]int{}
		var order []string
		counter := astits.DemuxerOptPacketsParser(func(ps []*astits.Packet) ([]*astits.DemuxerData, bool, error) {
			for _, pk := range ps {
				key := core.Dump(pk)
				if handed[key] == 0 {
					order = append(order, key)
				}
				handed[key]++
			}
			return nil, false, nil
		})
		rd, sr := world.NewReader(data, pcfg.Reader, out.Log)
		dmx := newDemuxer(rd, pcfg, counter)
		ends := 0
		for i := 0; i < npk*4+16+4*len(sc.Pauses) && ends < len(pcfg.Reader.EOFPauses)+2; i++ {
			_, err := dmx.NextData()
			if errors.Is(err, astits.ErrNoMorePackets) {
				ends++
				out.Log.Add("caller", "poll-again", ends)
				sr.Resume()
			}
		}
		if sr.PauseN > 0 {
			out.Fire("reader-eof-pause")
			if sr.Pos() > pcfg.Reader.EOFPauses[0] {
				out.Probe("resumed-after-eof-pause")
			}
		}
		for _, key := range order {
			if handed[key] > inStream[key] {
				out.Violate("C19", "group-repeated", "after-eof-pause", "a packet the stream carries %d time(s) was handed to the PacketsParser %d times (reader reported io.EOF %d times before the end and carried on)", inStream[key], handed[key], sr.PauseN)
				break
			}
		}
		out.FP(fmt.Sprintf("Ppause/%s/%d/%v", shape, min(sr.PauseN, 3), sr.Pos() >= len(data)))
	}
	out.Steps = out.Evals
	return out
}

// groupResults attributes the results of the observer pass to the parser calls. Before the
// end-of-stream drain a call's results are the ones delivered until the next call (NextData
// returns between two calls). The drain may hand over all pending groups before delivering
// anything, or one per call: there a datum belongs to the drain group of its PID (one pending
// group per PID), an error to the most recent call.
func groupResults(groups []groupRec, obs []DResult) [][]DResult {
	res := make([][]DResult, len(groups))
	firstDrain := len(groups)
	for gi, g := range groups {
		if g.drain {
			firstDrain = gi
			break
		}
	}
	for gi := 0; gi < firstDrain; gi++ {
		end := len(obs)
		if gi+1 < len(groups) {
			end = groups[gi+1].resAt
		}
		if groups[gi].resAt <= end && end <= len(obs) {
			res[gi] = obs[groups[gi].resAt:end]
		}
	}
	if firstDrain == len(groups) {
		return res
	}
	r0 := groups[firstDrain].resAt
	for i := r0; i < len(obs); i++ {
		x := obs[i]
		at := -1
		if x.D != nil {
			for gi := firstDrain; gi < len(groups); gi++ {
				if groups[gi].pid == x.D.PID {
					at = gi
				}
			}
		}
		if at < 0 {
			for gi := firstDrain; gi < len(groups); gi++ {
				if groups[gi].resAt <= i {
					at = gi
				}
			}
		}
		if at >= 0 {
			res[at] = append(res[at], x)
		}
	}
	return res
}

func hasKind(m *refts.Model, k string) bool {
	for _, s := range m.Streams {
		if s.Kind == k {
			return true
		}
	}
	return false
}

// runCounting pulls NextData keeping *n equal to the number of results delivered so far, so
// that callbacks can tell which results followed which call.
func runCounting(data []byte, cfg DemuxCfg, log *core.Log, maxCalls int, n *int, srp **world.SimReader, extra ...func(*astits.Demuxer)) []DResult {
	r, sr := world.NewReader(data, cfg.Reader, log)
	*srp = sr
	dmx := newDemuxer(r, cfg, extra...)
	var res []DResult
	for i := 0; i < maxCalls; i++ {
		d, err := dmx.NextData()
		res = append(res, DResult{D: d, Err: err, Pos: sr.Pos(), Pulled: sr.Pulled, Reads: sr.Reads})
		*n = len(res)
		if errors.Is(err, astits.ErrNoMorePackets) {
			break
		}
	}
	return res
}

func (filters) Shrink(scAny any) []any {
	sc := scAny.(*FilterScenario)
	var out []any
	for _, m := range shrinkModel(sc.Model) {
		c := *sc
		c.Model = m
		out = append(out, &c)
	}
	if len(sc.Reader.Chunks) > 0 || sc.Reader.Kind != "seekable" || sc.Reader.EOFWithData {
		c := *sc
		c.Reader = world.ReaderPlan{Kind: "seekable"}
		out = append(out, &c)
	}
	if len(sc.Inserts) > 0 {
		c := *sc
		c.Inserts = nil
		out = append(out, &c)
	}
	if sc.K != 0 {
		c := *sc
		c.K = 0
		out = append(out, &c)
	}
	for i := range sc.Pauses {
		if len(sc.Pauses) > 1 {
			c := *sc
			c.Pauses = append(append([]int{}, sc.Pauses[:i]...), sc.Pauses[i+1:]...)
			out = append(out, &c)
		}
	}
	if sc.Skipper != nil && sc.Parser != nil {
		c := *sc
		c.Parser = nil
		out = append(out, &c)
		c2 := *sc
		c2.Skipper = nil
		out = append(out, &c2)
	}
	return out
}
