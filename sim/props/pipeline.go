package props

import (
	"bytes"
	"context"
	"encoding/json"
	"fmt"

	"verif/sim/core"
	"verif/sim/world"

	astits "github.com/asticode/go-astits"
)

// PipelineScenario: a Muxer history whose output is demultiplexed again (engine `pipeline`, C01).
type PipelineScenario struct {
	Period int      `json:"period"`
	Ops    []MuxOp  `json:"ops"`
	Demux  DemuxCfg `json:"demux"`
	Relay  bool     `json:"relay,omitempty"` // feed the demuxed data to a second Muxer (as cmd/astits-es-split does) and demux again
}

type pipeline struct{}

func init() { core.Register(pipeline{}) }

func (pipeline) Name() string    { return "pipeline" }
func (pipeline) Props() []string { return []string{"C01"} }
func (pipeline) Runs(tier string) int64 {
	if tier == "thorough" {
		return 2000000
	}
	return 30000
}

func (pipeline) Meta() core.EngineMeta {
	return core.EngineMeta{
		Rule:       "Seeded histories of successful Add/Remove/SetPCRPID/WriteTables/WriteData calls (payload lengths biased to k*184 -/+ header/AF boundaries, >65535 occasionally; every PES optional-header combination the writer supports; first-packet adaptation fields up to 'exactly fills the packet' and 'leaves less room than the PES header'; explicit and automatic PIDs, removal and re-adding) on the real Muxer; its bytes go through a SimReader (seeded chunk plan, seekable/plain/bufio) into the real Demuxer; a third of the runs relay the demuxed structures into a second Muxer and demux again. Distinct = abstract fingerprint (multiset of per-unit classes: payload-boundary class, header size class, AF class, packets-per-unit class, relay flag); non-trivial = at least one unit delivered.",
		Real:       []string{"astits.Muxer", "astits.Demuxer", "everything below both", "bufio.Reader when the reader kind is bufio"},
		Stub:       []string{"SimWriter (fault-free)", "SimReader (fault-free, short reads per plan)", "MuxModel log of accepted units and emitted tables", "refts decoder (locates table packets in the writer log)"},
		FaultKinds: []string{"short-reads", "af-only-split", "readd-pid", "relay"},
		Assumptions: []string{
			"conformant arguments only: OptionalHeader present iff the stream id takes one, Extension2Data <= 127 bytes, TransportPrivateDataLength = len(TransportPrivateData), ES PIDs in 0x0020..0x1FFE minus the PMT PID, no discontinuity_indicator requested",
			"when adaptation field and PES header cannot share a packet the adaptation field must be delivered by NextPacket on the packet immediately preceding the unit on its PID (NextData never surfaces adaptation-only packets)",
		},
		Levels: map[string]string{"C01": "exploration"},
	}
}

func (pipeline) Decode(raw json.RawMessage) (any, error) {
	var sc PipelineScenario
	err := json.Unmarshal(raw, &sc)
	return &sc, err
}

func (pipeline) Generate(r *core.PRNG, tier string, idx int64) any {
	sc := &PipelineScenario{}
	sc.Period = []int{1, 2, 3, 5, 8, 40}[r.Intn(6)]
	var n int
	switch r.Pick(4, 4, 2) {
	case 0:
		n = r.Range(3, 8)
	case 1:
		n = r.Range(9, 25)
	default:
		n = r.Range(26, 60)
	}
	sc.Ops = GenMuxOps(r, n, sc.Period, true, false, false, r.Chance(1, 10))
	sc.Demux.Reader = genReaderPlan(r, []string{"seekable", "plain", "bufio"})
	sc.Demux.PacketSize = 188
	if r.Chance(1, 3) && sc.Demux.Reader.Kind != "plain" {
		sc.Demux.PacketSize = 0
	}
	sc.Relay = r.Chance(1, 3)
	return sc
}

type wantUnit struct {
	call    int
	pid     uint16
	payload []byte
	pes     *astits.PESHeader
	af      *astits.PacketAdaptationField
	sid     uint8
	// privGiven >= 0: the caller gave that many bytes of the 16-byte PES_private_data field
	privGiven int
}

func (pipeline) Execute(scAny any, keepLog bool) *core.Outcome {
	sc := scAny.(*PipelineScenario)
	out := core.NewOutcome()
	out.Log = core.NewLog(keepLog)
	out.Evals = 1
	if sc.Period < 1 {
		sc.Period = 1
	}
	ms := NewMuxSim(sc.Period, world.WriterPlan{}, out, false)
	ms.Run(sc.Ops)
	// what the history wrote, per PID
	want := map[uint16][]*wantUnit{}
	var order []uint16
	tables := 0
	var tableCalls []*CallRec
	classes := map[string]int{}
	for _, c := range ms.Calls {
		if c.Skipped {
			continue
		}
		if c.Err != nil {
			// the workload only issues calls that must succeed (C04/C17 own rejected calls)
			if c.Op.Op == "data" || c.Op.Op == "tables" {
				out.Probe("call-failed-" + c.Op.Op)
			}
			continue
		}
		if c.Tables {
			tables++
			tableCalls = append(tableCalls, c)
		}
		if c.Op.Op != "data" {
			continue
		}
		pid := uint16(c.PID)
		spec := PESSpec{}
		if c.Op.PES != nil {
			spec = *c.Op.PES
		}
		wspec := spec
		wspec.NilOpt = false // what comes back is the empty optional header
		wantPES := wspec.ToAstits()
		privGiven := -1
		if oh := wantPES.OptionalHeader; oh != nil && oh.HasPrivateData && len(oh.PrivateData) < 16 {
			// PES_private_data is a 16-byte field: shorter caller data travel padded to 16 bytes;
			// with what is the writer's choice (only the bytes given are compared)
			privGiven = len(oh.PrivateData)
			oh.PrivateData = append(append([]byte{}, oh.PrivateData...), make([]byte, 16-len(oh.PrivateData))...)
		}
		u := &wantUnit{call: c.I, pid: pid, payload: c.Payload, pes: wantPES, af: AFToAstits(c.Op.AF), sid: spec.StreamID, privGiven: privGiven}
		if _, ok := want[pid]; !ok {
			order = append(order, pid)
		}
		want[pid] = append(want[pid], u)
		afc := "noaf"
		if c.Op.AF != nil {
			room := 184 - c.Op.AF.Size()
			switch {
			case room < spec.HeaderSize():
				afc = "af-split"
				out.Fire("af-only-split")
			case room == spec.HeaderSize():
				afc = "af-exact"
			default:
				afc = "af"
			}
		}
		rem := (spec.HeaderSize() + len(c.Payload)) % 184
		bc := "mid"
		switch {
		case rem == 0:
			bc = "exact"
		case rem <= 2:
			bc = "over" + fmt.Sprint(rem)
		case rem >= 182:
			bc = "under" + fmt.Sprint(184-rem)
		}
		np := (spec.HeaderSize() + len(c.Payload) + 183) / 184
		npc := "1"
		switch {
		case np > 16:
			npc = ">16"
		case np > 1:
			npc = "2-16"
		}
		if len(c.Payload)+spec.HeaderSize()-6 > 65535 {
			npc = ">64k"
			out.Probe("pes-length-overflow")
		}
		classes[fmt.Sprintf("%s/%s/h%d/%s", afc, bc, spec.HeaderSize()/8, npc)]++
	}
	if len(ms.W.Buf)%188 != 0 || ms.Broken {
		out.Probe("mux-output-broken") // C04's business
		return out
	}
	readd := false
	seenRemoved := map[int]bool{}
	for _, c := range ms.Calls {
		if c.Op.Op == "remove" && c.Err == nil {
			seenRemoved[c.PID] = true
		}
		if c.Op.Op == "add" && c.Err == nil {
			pid := c.PID
			if p, ok := ms.PIDOf[c.I]; ok {
				pid = p
			}
			if seenRemoved[pid] {
				readd = true
			}
		}
	}
	if readd {
		out.Fire("readd-pid")
	}
	if len(sc.Demux.Reader.Chunks) > 0 {
		out.Fire("short-reads")
	}
	out.Packets += int64(len(ms.W.Buf) / 188)
	if len(ms.W.Buf) == 0 {
		return out
	}
	sig := ""
	if readd {
		sig = "after-readd"
	}
	res, _ := DemuxData(ms.W.Buf, sc.Demux, out.Log, len(ms.W.Buf)/188+16)
	got, errs := byPID(res)
	out.Steps += int64(len(res))
	for _, e := range errs {
		out.Violate("C01", "demux-error", sig, "NextData returned an error on the Muxer's own output: %v", e)
		break
	}
	pkts, _ := DemuxPackets(ms.W.Buf, DemuxCfg{PacketSize: 188, Reader: world.ReaderPlan{Kind: "seekable"}}, nil, len(ms.W.Buf)/188+4)
	compareUnits(out, "C01", sig, want, order, got, pkts)
	// tables
	pmtPID := uint16(0)
	if ms.pmtPID >= 0 {
		pmtPID = uint16(ms.pmtPID)
	}
	npat := len(got[0])
	if npat != tables {
		out.Violate("C01", "table-count", "pat", "%d PAT delivered, %d PAT/PMT pairs were emitted", npat, tables)
	}
	if ms.pmtPID >= 0 {
		gp := got[pmtPID]
		if len(gp) != tables {
			out.Violate("C01", "table-count", "pmt", "%d PMT delivered on PID %#x, %d pairs were emitted", len(gp), pmtPID, tables)
		}
		for k, d := range gp {
			if k >= len(tableCalls) {
				break
			}
			c := tableCalls[k]
			if d.PMT == nil {
				out.Violate("C01", "table-content", "not-pmt", "datum %d on the PMT PID is not a PMT", k)
				continue
			}
			if msg := pmtMatches(d.PMT, c); msg != "" {
				out.Violate("C01", "table-content", "pmt", "PMT %d (emitted by call %d): %s", k, c.I, msg)
			}
		}
		for k, d := range got[0] {
			if d.PAT == nil || len(d.PAT.Programs) != 1 || d.PAT.Programs[0].ProgramMapID != pmtPID {
				out.Violate("C01", "table-content", "pat", "PAT %d does not map one program to the PMT PID %#x: %s", k, pmtPID, core.Short(core.Dump(d.PAT), 200))
			}
		}
	}
	if n := unitCount(got); n > 0 {
		out.FP(fmt.Sprintf("%x", fnvStr(core.Dump(classes)+fmt.Sprint(sc.Relay, sc.Demux.PacketSize, sc.Demux.Reader.Kind))))
	}
	if sc.Relay && out.First("C01") == nil {
		relay(out, sc, res, got)
	}
	return out
}

func unitCount(m map[uint16][]*astits.DemuxerData) int {
	n := 0
	for _, l := range m {
		for _, d := range l {
			if d.PES != nil {
				n++
			}
		}
	}
	return n
}

func pmtMatches(p *astits.PMTData, c *CallRec) string {
	if c.ModelPCR >= 0 && int(p.PCRPID) != c.ModelPCR {
		return fmt.Sprintf("PCR PID %#x, configured %#x", p.PCRPID, c.ModelPCR)
	}
	if len(p.ElementaryStreams) != len(c.ModelStreams) {
		return fmt.Sprintf("%d streams listed, %d configured", len(p.ElementaryStreams), len(c.ModelStreams))
	}
	for k, st := range c.ModelStreams {
		g := p.ElementaryStreams[k]
		if st.pid >= 0 && int(g.ElementaryPID) != st.pid {
			return fmt.Sprintf("stream %d PID %#x, configured %#x", k, g.ElementaryPID, st.pid)
		}
		if uint8(g.StreamType) != st.typ {
			return fmt.Sprintf("stream %d type %#x, configured %#x", k, g.StreamType, st.typ)
		}
		var wd []*astits.Descriptor
		for _, d := range st.descs {
			x := d
			x.LenMode = 0
			wd = append(wd, x.ToAstits())
		}
		// A descriptor configured as opaque bytes must come back with those bytes; whether the
		// library additionally offers a typed view of it is not the round trip's business.
		gd := g.ElementaryStreamDescriptors
		if len(gd) == len(wd) {
			gd = append([]*astits.Descriptor{}, gd...)
			for i, w := range wd {
				if w.Unknown != nil && gd[i] != nil {
					gd[i] = &astits.Descriptor{Tag: gd[i].Tag, Length: gd[i].Length, Unknown: gd[i].Unknown}
				}
			}
		}
		if core.Dump(gd) != core.Dump(wd) {
			return fmt.Sprintf("stream %d descriptors %s, configured %s", k, core.Short(core.Dump(g.ElementaryStreamDescriptors), 300), core.Short(core.Dump(wd), 300))
		}
	}
	return ""
}

// compareUnits checks the per-PID PES sequences against what was written.
func compareUnits(out *core.Outcome, prop, sig string, want map[uint16][]*wantUnit, order []uint16, got map[uint16][]*astits.DemuxerData, pkts []DResult) {
	// per-PID packet lists for the adaptation-only corner
	pp := map[uint16][]*astits.Packet{}
	for _, r := range pkts {
		if r.P != nil {
			pp[r.P.Header.PID] = append(pp[r.P.Header.PID], r.P)
		}
	}
	for _, pid := range order {
		w := want[pid]
		g := got[pid]
		var gp []*astits.DemuxerData
		for _, d := range g {
			gp = append(gp, d)
		}
		// units preceded by an adaptation-only packet, in order of PUSI packets
		var preAF []*astits.PacketAdaptationField
		var last *astits.Packet
		for _, p := range pp[pid] {
			if p.Header.HasPayload && p.Header.PayloadUnitStartIndicator {
				if last != nil && !last.Header.HasPayload {
					preAF = append(preAF, last.AdaptationField)
				} else {
					preAF = append(preAF, nil)
				}
			}
			last = p
		}
		for k := 0; k < len(w) || k < len(gp); k++ {
			if k >= len(gp) {
				out.Violate(prop, "unit-lost", sig, "PID %#x: %d units written, %d delivered; first missing is the unit of call %d (%d bytes)", pid, len(w), len(gp), w[k].call, len(w[k].payload))
				break
			}
			if k >= len(w) {
				out.Violate(prop, "unit-extra", sig, "PID %#x: %d units written, %d delivered", pid, len(w), len(gp))
				break
			}
			d, u := gp[k], w[k]
			if d.PES == nil {
				out.Violate(prop, "unit-kind", sig, "PID %#x datum %d is not a PES (%s)", pid, k, dataKind(d))
				break
			}
			if !bytes.Equal(d.PES.Data, u.payload) {
				cls := "payload-altered"
				if k+1 < len(w) && bytes.Equal(d.PES.Data, w[k+1].payload) {
					out.Violate(prop, "unit-lost", sig, "PID %#x: unit %d (call %d, %d bytes) was not delivered (the next one was)", pid, k, u.call, len(u.payload))
					break
				}
				out.Violate(prop, cls, sig, "PID %#x unit %d (call %d): payload delivered %d bytes %s, written %d bytes %s", pid, k, u.call, len(d.PES.Data), diffAt(d.PES.Data, u.payload), len(u.payload), "")
				break
			}
			wantH := *u.pes
			if u.privGiven >= 0 && wantH.OptionalHeader != nil && d.PES.Header.OptionalHeader != nil && len(d.PES.Header.OptionalHeader.PrivateData) == 16 {
				oh := *wantH.OptionalHeader
				oh.PrivateData = append(append([]byte{}, oh.PrivateData[:u.privGiven]...), d.PES.Header.OptionalHeader.PrivateData[u.privGiven:]...)
				wantH.OptionalHeader = &oh
			}
			if u.sid == 0 {
				if d.PES.Header.StreamID == 0 {
					out.Violate(prop, "header-altered", sig, "PID %#x unit %d: stream id 0 delivered", pid, k)
				}
				wantH.StreamID = d.PES.Header.StreamID
			}
			if a, b := pesSemantic(d.PES.Header), pesSemantic(&wantH); a != b {
				out.Violate(prop, "header-altered", sig, "PID %#x unit %d (call %d): PES header delivered %s, written %s", pid, k, u.call, core.Short(a, 500), core.Short(b, 500))
				break
			}
			wa := afSemantic(u.af)
			ga := ""
			if d.FirstPacket != nil {
				ga = afSemantic(d.FirstPacket.AdaptationField)
			}
			if wa != ga {
				alt := ""
				if k < len(preAF) {
					alt = afSemantic(preAF[k])
				}
				if !(ga == "" && alt == wa) {
					out.Violate(prop, "af-altered", sig, "PID %#x unit %d (call %d): first-packet adaptation field delivered %q (adaptation-only packet before the unit: %q), written %q", pid, k, u.call, core.Short(ga, 300), core.Short(alt, 300), core.Short(wa, 300))
					break
				}
				out.Probe("af-delivered-by-nextpacket")
			}
		}
	}
}

func diffAt(a, b []byte) string {
	n := len(a)
	if len(b) < n {
		n = len(b)
	}
	for i := 0; i < n; i++ {
		if a[i] != b[i] {
			return fmt.Sprintf("(first difference at %d: %#x vs %#x)", i, a[i], b[i])
		}
	}
	return fmt.Sprintf("(common prefix %d)", n)
}

// relay feeds the demuxed PES data - the parser's own structures, exactly what
// cmd/astits-es-split passes - to a second Muxer and demuxes its output again.
func relay(out *core.Outcome, sc *PipelineScenario, res []DResult, got map[uint16][]*astits.DemuxerData) {
	out.Fire("relay")
	w2 := world.NewWriter(world.WriterPlan{}, out.Log)
	m2 := astits.NewMuxer(context.Background(), w2, astits.MuxerOptTablesRetransmitPeriod(sc.Period))
	added := map[uint16]bool{}
	want := map[uint16][]*wantUnit{}
	var order []uint16
	n := 0
	for _, r := range res {
		d := r.D
		if d == nil || d.PES == nil {
			continue
		}
		if !added[d.PID] {
			if err := m2.AddElementaryStream(astits.PMTElementaryStream{ElementaryPID: d.PID, StreamType: astits.StreamTypeH264Video}); err != nil {
				return
			}
			if len(added) == 0 {
				m2.SetPCRPID(d.PID)
			}
			added[d.PID] = true
			order = append(order, d.PID)
		}
		// expectations are taken before the call: deep copies of what is handed over
		hdr := *d.PES.Header
		if hdr.OptionalHeader != nil {
			oh := *hdr.OptionalHeader
			hdr.OptionalHeader = &oh
		}
		var af *astits.PacketAdaptationField
		if d.FirstPacket != nil && d.FirstPacket.AdaptationField != nil {
			c := *d.FirstPacket.AdaptationField
			af = &c
		}
		want[d.PID] = append(want[d.PID], &wantUnit{call: n, pid: d.PID, payload: append([]byte{}, d.PES.Data...), pes: &hdr, af: af, sid: hdr.StreamID, privGiven: -1})
		var afArg *astits.PacketAdaptationField
		if d.FirstPacket != nil {
			afArg = d.FirstPacket.AdaptationField
		}
		if _, err := m2.WriteData(&astits.MuxerData{PID: d.PID, AdaptationField: afArg, PES: d.PES}); err != nil {
			out.Violate("C01", "relay-write-failed", "", "second Muxer rejected demuxed unit %d of PID %#x: %v", n, d.PID, err)
			return
		}
		n++
	}
	if len(w2.Buf)%188 != 0 || len(w2.Buf) == 0 {
		return
	}
	res2, _ := DemuxData(w2.Buf, DemuxCfg{PacketSize: 188, Reader: world.ReaderPlan{Kind: "seekable"}}, out.Log, len(w2.Buf)/188+16)
	got2, errs := byPID(res2)
	for _, e := range errs {
		out.Violate("C01", "demux-error", "relay", "NextData returned an error on the relayed stream: %v", e)
		break
	}
	pk2, _ := DemuxPackets(w2.Buf, DemuxCfg{PacketSize: 188, Reader: world.ReaderPlan{Kind: "seekable"}}, nil, len(w2.Buf)/188+4)
	compareUnits(out, "C01", "relay", want, order, got2, pk2)
	out.Packets += int64(len(w2.Buf) / 188)
}

func (pipeline) Shrink(scAny any) []any {
	sc := scAny.(*PipelineScenario)
	var out []any
	mk := func(f func(c *PipelineScenario)) {
		c := *sc
		f(&c)
		out = append(out, &c)
	}
	for _, ops := range shrinkOps(sc.Ops) {
		o := ops
		mk(func(c *PipelineScenario) { c.Ops = o })
	}
	if sc.Relay {
		mk(func(c *PipelineScenario) { c.Relay = false })
	}
	if len(sc.Demux.Reader.Chunks) > 0 || sc.Demux.Reader.Kind != "seekable" || sc.Demux.Reader.EOFWithData {
		mk(func(c *PipelineScenario) { c.Demux.Reader = world.ReaderPlan{Kind: "seekable"} })
	}
	if sc.Demux.PacketSize == 0 {
		mk(func(c *PipelineScenario) { c.Demux.PacketSize = 188 })
	}
	if sc.Period > 1 {
		mk(func(c *PipelineScenario) { c.Period = 1 })
	}
	return out
}
