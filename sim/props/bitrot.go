package props

import (
	"encoding/json"
	"fmt"

	"verif/sim/core"
	"verif/sim/refts"
	"verif/sim/world"
)

// RotFault is one corruption of the bytes of the unit under test. Offsets are relative to
// the unit's byte string (pointer_field is offset 0).
type RotFault struct {
	Kind string `json:"kind"`           // flip | subst | burst | trunc | extend
	Bit  int    `json:"bit,omitempty"`  // flip / burst: first bit (byte*8 + bit from MSB)
	Len  int    `json:"len,omitempty"`  // burst: length in bits (<=32); trunc: bytes removed; extend: bytes added
	Seed uint64 `json:"seed,omitempty"` // subst / burst / extend: content
	N    int    `json:"n,omitempty"`    // subst: number of bytes substituted
}

// BitrotScenario (engine `bitrot`, C09). Mode "sections": a unit of reference-encoded
// sections is corrupted on its way to the Demuxer. Mode "muxed": the PAT/PMT packets the real
// Muxer emits are checked by the reference framer.
type BitrotScenario struct {
	Mode string `json:"mode"` // sections | muxed
	// sections
	Model  *refts.Model `json:"model,omitempty"`
	Stream int          `json:"stream,omitempty"` // unit under test: Model.Streams[Stream].Units[Unit]
	Unit   int          `json:"unit,omitempty"`
	Enum   bool         `json:"enum,omitempty"` // every single-bit flip of every section byte
	Faults []RotFault   `json:"faults,omitempty"`
	// muxed
	Period int     `json:"period,omitempty"`
	Ops    []MuxOp `json:"ops,omitempty"`
	// muxed, with a writer that fails once: WFault enumerates every Write call of the history as
	// the failing one (FailOne >= 0 after narrowing: only that call); the tables emitted by later
	// successful calls are judged
	WFault  bool `json:"wfault,omitempty"`
	FailOne int  `json:"fail_one,omitempty"` // 0 = enumerate, k>0 = only Write call k-1
	Short   int  `json:"short,omitempty"`
}

type bitrot struct{}

func init() { core.Register(bitrot{}) }

func (bitrot) Name() string    { return "bitrot" }
func (bitrot) Props() []string { return []string{"C09"} }
func (bitrot) Runs(tier string) int64 {
	if tier == "thorough" {
		return 90000
	}
	return 900
}

func (bitrot) Meta() core.EngineMeta {
	return core.EngineMeta{
		Rule:       "Mode sections (2/3 of the runs): a unit of 1..N reference-encoded sections of the six table types on its conformant PID (after a clean PAT, followed by a clean unit on the same PID and traffic on others) is corrupted in its section bytes only: even indices execute EVERY single-bit flip of every section byte of the unit (exhaustive per unit), the others seeded byte substitutions, bursts of up to 32 bits, truncations and extensions. The reference framer classifies each original section as untouched / touched; delivered data on the unit's PID must be a subsequence of the baseline with every touched section absent (unless the bit-serial reference CRC accepts the corrupted section: a collision, counted and never reported), the following unit and all other PIDs must be unchanged. Mode muxed (1/3): Muxer histories with elementary-stream descriptors of all 23 typed kinds (list-valued ones with 0..n items, Length field 0 or arbitrary) and user-defined/unknown ones; every PAT/PMT packet on the recording writer must frame to exactly one section whose section_length bytes follow, with CRC residue 0 under the bit-serial reference CRC and only 0xFF after it; a third of these histories (small units between table emissions) is replayed once per Write call (at most about 300 per history, strided beyond that) with that call failing once, and the table packets of later successful calls are judged the same way. evaluations = corrupted executions + table packets checked; distinct = (table type, fault kind, field class of the corrupted byte: table_id / length / header / body / CRC, sections per unit) or (descriptor kind set, PMT size class).",
		Real:       []string{"astits.Demuxer", "astits.Muxer (mode muxed)", "everything below them"},
		Stub:       []string{"refts section encoders, framer and bit-serial CRC-32/MPEG-2", "PacketChannel (corruption of section bytes)", "SimReader / SimWriter (fault-free)"},
		FaultKinds: []string{"flip", "subst", "burst", "trunc", "extend", "typed-descriptor", "length-zero-descriptor"},
		Assumptions: []string{
			"corruption is confined to the bytes from the unit's first table_id to the last byte of its last section (pointer_field and TS headers are other properties' subject)",
			"whether a damaged unit yields an error or nothing is left open, as the property does",
		},
		Levels: map[string]string{"C09": "fault_enumeration"},
	}
}

func (bitrot) Decode(raw json.RawMessage) (any, error) {
	var sc BitrotScenario
	err := json.Unmarshal(raw, &sc)
	return &sc, err
}

func (bitrot) Generate(r *core.PRNG, tier string, idx int64) any {
	if idx%3 == 2 {
		sc := &BitrotScenario{Mode: "muxed", Period: 1}
		ns := r.Range(1, 4)
		huge := ns >= 2 && r.Chance(1, 10) // the last stream's descriptor loop exceeds its 10-bit length: tables are refused until it is removed
		for i := 0; i < ns; i++ {
			op := MuxOp{Op: "add", H: -1, PID: uint16(0x100 + i), Type: streamTypes[r.Intn(len(streamTypes))]}
			nd := r.Pick(1, 3, 2, 1)
			if huge && i == ns-1 {
				for k := 0; k < 5; k++ {
					op.Descs = append(op.Descs, DescSpec{Kind: "user", Tag: uint8(r.Range(0x80, 0xfe)), Data: r.Bytes(r.Range(215, 253))})
				}
				nd = 0
			}
			for k := 0; k < nd; k++ {
				if r.Chance(3, 4) {
					d := DescSpec{Kind: "typed:" + TypedDescNames[r.Intn(len(TypedDescNames))], Seed: r.Uint64(), N: r.Intn(4)}
					if r.Chance(1, 3) {
						d.LenMode = 1
					}
					op.Descs = append(op.Descs, d)
				} else {
					d := genDesc(r, 12)
					if r.Chance(1, 3) {
						d.LenMode = 1 + r.Intn(2)
					}
					op.Descs = append(op.Descs, d)
				}
			}
			sc.Ops = append(sc.Ops, op)
			if i == 0 {
				sc.Ops = append(sc.Ops, MuxOp{Op: "setpcr", H: 0})
			}
			sc.Ops = append(sc.Ops, MuxOp{Op: "tables", H: -1})
		}
		if r.Bool() || huge {
			// the PMT shrinks: the last stream added goes (stream 0 carries the PCR), or the PCR
			// moves first
			last := -1
			for i, op := range sc.Ops {
				if op.Op == "add" {
					last = i
				}
			}
			if last > 0 {
				sc.Ops = append(sc.Ops, MuxOp{Op: "remove", H: last}, MuxOp{Op: "tables", H: -1})
			} else {
				sc.Ops = append(sc.Ops, MuxOp{Op: "remove", H: 0}, MuxOp{Op: "tables", H: -1})
			}
		}
		if r.Chance(1, 3) {
			// a writer that fails once somewhere in a history of small units and table emissions
			sc.WFault = true
			sc.Short = r.Range(0, 2)
			sc.Period = r.Range(1, 3)
			var ops []MuxOp
			tag := 1
			for _, op := range sc.Ops {
				ops = append(ops, op)
				if op.Op == "tables" {
					nd := r.Range(1, 3)
					for k := 0; k < nd; k++ {
						ps := PESSpec{StreamID: 0xe0}
						d := MuxOp{Op: "data", H: 0, PES: &ps, Len: genLen(r, ps.HeaderSize(), 0, false), Tag: tag}
						if r.Bool() {
							d.Len = r.Range(1, 150)
						}
						if r.Chance(1, 4) {
							d.AF = &refts.AF{RAI: true}
						}
						tag++
						ops = append(ops, d)
					}
					ops = append(ops, MuxOp{Op: "tables", H: -1})
				}
			}
			for i := range ops {
				if ops[i].Op == "remove" {
					ops = ops[:i] // stream 0 carries the data
					break
				}
			}
			sc.Ops = ops
		}
		return sc
	}
	cfg := StreamCfg{ES: r.Range(0, 1), PMT: 1, SI: true, UnitsMin: 2, UnitsMax: 2, MultiSec: r.Chance(1, 2), PATRepeat: 2, NoAF: r.Bool(), MaxPES: 300}
	// long sections (loops beyond 255 bytes) only where the faults are seeded, not exhaustive
	cfg.BigPSI = idx%3 != 0 && r.Chance(1, 3)
	sc := &BitrotScenario{Mode: "sections", Model: GenModel(r, cfg)}
	// choose the unit under test: never the first PAT unit
	type cand struct{ s, u int }
	var cs []cand
	for si, s := range sc.Model.Streams {
		if s.Kind == "PES" {
			continue
		}
		for ui := range s.Units {
			if s.Kind == "PAT" && ui == 0 {
				continue
			}
			if ui == len(s.Units)-1 && !r.Chance(1, 3) {
				continue // usually a clean unit follows on the PID
			}
			cs = append(cs, cand{si, ui})
		}
	}
	if len(cs) == 0 {
		cs = []cand{{0, len(sc.Model.Streams[0].Units) - 1}}
	}
	c := cs[r.Intn(len(cs))]
	sc.Stream, sc.Unit = c.s, c.u
	if idx%3 == 0 {
		sc.Enum = true
		return sc
	}
	ulen := len(sc.Model.Streams[c.s].Units[c.u].Bytes())
	nf := r.Range(1, 2)
	for i := 0; i < nf; i++ {
		f := RotFault{Seed: r.Uint64()}
		switch r.Pick(3, 3, 1, 1) {
		case 0:
			f.Kind, f.N = "subst", r.Range(1, 4)
		case 1:
			f.Kind, f.Bit, f.Len = "burst", r.Intn(ulen*8), r.Range(2, 32)
		case 2:
			f.Kind, f.Len = "trunc", r.Range(1, min(ulen-2, 40))
		default:
			f.Kind, f.Len = "extend", r.Range(1, 30)
		}
		sc.Faults = append(sc.Faults, f)
	}
	return sc
}

func (bitrot) Execute(scAny any, keepLog bool) *core.Outcome {
	sc := scAny.(*BitrotScenario)
	out := core.NewOutcome()
	out.Log = core.NewLog(keepLog)
	if sc.Mode == "muxed" {
		rotMuxed(sc, out)
	} else {
		rotSections(sc, out)
	}
	out.Steps = out.Evals
	return out
}

// fieldClass names the part of a section a byte offset (relative to the section start) is in.
func fieldClass(off, seclen int, long bool) string {
	switch {
	case off == 0:
		return "table_id"
	case off < 3:
		return "length"
	case off >= seclen-4:
		return "crc"
	case long && off < 8:
		return "header"
	}
	return "body"
}

func rotSections(sc *BitrotScenario, out *core.Outcome) {
	m := sc.Model
	if m == nil || sc.Stream < 0 || sc.Stream >= len(m.Streams) || sc.Unit < 0 || sc.Unit >= len(m.Streams[sc.Stream].Units) {
		return
	}
	st := &m.Streams[sc.Stream]
	u := st.Units[sc.Unit]
	if u.IsPES() || u.Raw != nil || (st.Kind == "PAT" && sc.Unit == 0) {
		return
	}
	b0, err := m.Build()
	if err != nil {
		out.Probe("model-unbuildable")
		return
	}
	out.Packets = int64(len(b0.Packets))
	base, _, _ := demuxRecs(b0.Packets, nil)
	want := expectedWithUnits(m, b0)
	// The unit's PID is judged against what the stream carries (the model), not against the
	// library's own fault-free output: a table that is delivered without its CRC_32 having been
	// verified is often mis-decoded already when intact, and must not make the run unjudgeable.
	exp := map[uint16][]datumRec{}
	for _, pid := range pidKeys(want) {
		w := want[pid]
		for _, e := range w {
			exp[pid] = append(exp[pid], datumRec{key: e.key, unit: [2]int{e.stream, e.unit}})
		}
	}
	if msg := sameKeys(exp[st.PID], base[st.PID]); msg != "" {
		out.Probe("baseline-differs-from-model")
	}
	orig := u.Bytes()
	// section extents inside the unit
	type ext struct{ start, end int }
	var secs []ext
	off := 1 + u.Pointer
	for i := range u.Sections {
		n := len(u.Sections[i].Encode())
		secs = append(secs, ext{off, off + n})
		off += n
	}
	secEnd := off
	pid := st.PID
	// sections that deliver a datum (a TDT does not), in order: datum k of the unit <-> section
	var secOfDatum []int
	for i := range u.Sections {
		if u.Sections[i].TDT == nil {
			secOfDatum = append(secOfDatum, i)
		}
	}
	touchedDatum := func(touched []bool, k int) bool {
		return k >= 0 && k < len(secOfDatum) && touched[secOfDatum[k]]
	}
	// index of the unit's first datum in the PID's baseline list
	firstIdx := -1
	for k, d := range exp[pid] {
		if d.unit == [2]int{sc.Stream, sc.Unit} {
			firstIdx = k
			break
		}
	}
	if firstIdx < 0 && len(secOfDatum) > 0 {
		out.Probe("baseline-mismatch")
		return
	}
	judge := func(raw []byte, touched []bool, desc, fp string, faults []RotFault) {
		out.Evals++
		pre := len(out.Violations)
		cm := *m
		cm.Streams = append([]refts.Stream{}, m.Streams...)
		cs := cm.Streams[sc.Stream]
		cs.Units = append([]refts.Unit{}, cs.Units...)
		cu := cs.Units[sc.Unit]
		cu.Raw = raw
		cu.AF = nil
		total := 0
		for _, c := range u.Chunks {
			total += c
		}
		if total < len(raw) || len(raw) < len(orig) {
			cu.Chunks = plainChunks(len(raw))
		}
		cs.Units[sc.Unit] = cu
		cm.Streams[sc.Stream] = cs
		cb, err := cm.Build()
		if err != nil {
			out.Probe("corrupted-model-unbuildable")
			return
		}
		out.Log.Add("rot", desc)
		got, _, _ := demuxRecs(cb.Packets, out.Log)
		// collisions: the reference CRC accepts a touched section at its original position
		collision := false
		for i, e := range secs {
			if touched[i] && e.end <= len(raw) && refts.CRC32(raw[e.start:e.end]) == 0 {
				collision = true
			}
		}
		if collision {
			out.Probe("crc-collision")
			return
		}
		// other PIDs: identical
		for _, p := range pidKeys(base) {
			bl := base[p]
			if p == pid {
				continue
			}
			if msg := sameSeq(bl, got[p]); msg != "" {
				out.Violate("C09", "other-pid-affected", kindOf(m, p), "%s on PID %#x changed the output of PID %#x: %s", desc, pid, p, msg)
			}
		}
		// unit's PID: delivered data are a subsequence of the baseline without the touched sections
		allowed := []datumRec{}
		for k, d := range exp[pid] {
			if d.unit == [2]int{sc.Stream, sc.Unit} {
				if touchedDatum(touched, k-firstIdx) {
					continue
				}
			}
			allowed = append(allowed, d)
		}
		j := 0
		for k, g := range got[pid] {
			found := -1
			for x := j; x < len(allowed); x++ {
				if allowed[x].key == g.key {
					found = x
					break
				}
			}
			if found < 0 {
				cls, sig := "altered-table-delivered", dataKind(g.d)
				for _, d := range exp[pid] {
					if d.key == g.key {
						cls = "touched-section-delivered"
					}
				}
				out.Violate("C09", cls, sig, "%s: PID %#x datum %d is delivered although its section does not carry a valid CRC_32 / is not a section of the stream: %s", desc, pid, k, core.Short(g.key, 300))
				break
			}
			j = found + 1
		}
		// units other than the one under test on the same PID must all be there
		for _, d := range exp[pid] {
			if d.unit == [2]int{sc.Stream, sc.Unit} {
				continue
			}
			present := false
			for _, g := range got[pid] {
				if g.key == d.key {
					present = true
				}
			}
			if !present {
				out.Violate("C09", "clean-unit-lost", st.Kind, "%s: the untouched unit %v on PID %#x was not delivered", desc, d.unit, pid)
				break
			}
		}
		if len(out.Violations) > pre {
			out.Narrow(pre, &BitrotScenario{Mode: "sections", Model: m, Stream: sc.Stream, Unit: sc.Unit, Faults: faults})
		}
		out.FP(fp)
	}
	secOf := func(byteOff int) int {
		for i, e := range secs {
			if byteOff >= e.start && byteOff < e.end {
				return i
			}
		}
		return -1
	}
	kindOfSec := func(i int) string { return u.Sections[i].Kind() }
	apply := func(faults []RotFault) {
		raw := append([]byte{}, orig...)
		touched := make([]bool, len(secs))
		fp := ""
		desc := ""
		for _, f := range faults {
			switch f.Kind {
			case "flip":
				bo := f.Bit / 8
				if bo < 1+u.Pointer || bo >= secEnd || bo >= len(raw) {
					continue
				}
				raw[bo] ^= 0x80 >> uint(f.Bit%8)
				si := secOf(bo)
				touched[si] = true
				out.Fire("flip")
				fp += fmt.Sprintf("F%s/%s/%d", kindOfSec(si), fieldClass(bo-secs[si].start, secs[si].end-secs[si].start, kindOfSec(si) != "TOT"), len(secs))
				desc += fmt.Sprintf("bit flip at byte %d bit %d (%s %s) ", bo, f.Bit%8, kindOfSec(si), fieldClass(bo-secs[si].start, secs[si].end-secs[si].start, kindOfSec(si) != "TOT"))
			case "subst":
				r := core.NewPRNG(f.Seed)
				for k := 0; k < f.N; k++ {
					bo := 1 + u.Pointer + r.Intn(secEnd-1-u.Pointer)
					nb := byte(r.Intn(256))
					if bo < len(raw) && raw[bo] != nb {
						raw[bo] = nb
						touched[secOf(bo)] = true
					}
				}
				out.Fire("subst")
				fp += fmt.Sprintf("S%d/%d", f.N, len(secs))
				desc += fmt.Sprintf("%d byte substitution(s) ", f.N)
			case "burst":
				r := core.NewPRNG(f.Seed)
				l := f.Len
				if l > 32 {
					l = 32
				}
				if l < 1 {
					l = 1
				}
				changed := false
				for k := 0; k < l; k++ {
					bit := f.Bit + k
					bo := bit / 8
					if bo < 1+u.Pointer || bo >= secEnd || bo >= len(raw) {
						continue
					}
					// first and last bit of the burst always flip
					if k == 0 || k == l-1 || r.Bool() {
						raw[bo] ^= 0x80 >> uint(bit%8)
						touched[secOf(bo)] = true
						changed = true
					}
				}
				if changed {
					out.Fire("burst")
				}
				fp += fmt.Sprintf("B%d/%d", l/8, len(secs))
				desc += fmt.Sprintf("burst of %d bits at bit %d ", l, f.Bit)
			case "trunc":
				n := f.Len
				if n >= len(raw)-1-u.Pointer {
					n = len(raw) - 2 - u.Pointer
				}
				if n < 1 {
					continue
				}
				cut := len(raw) - n
				for i, e := range secs {
					if e.end > cut {
						touched[i] = true
					}
				}
				raw = raw[:cut]
				out.Fire("trunc")
				fp += fmt.Sprintf("T/%d", len(secs))
				desc += fmt.Sprintf("truncation by %d bytes ", n)
			case "extend":
				r := core.NewPRNG(f.Seed)
				raw = append(raw, r.Bytes(f.Len)...)
				out.Fire("extend")
				fp += fmt.Sprintf("E/%d", len(secs))
				desc += fmt.Sprintf("extension by %d garbage bytes ", f.Len)
			}
		}
		any := false
		for _, t := range touched {
			any = any || t
		}
		if !any && len(raw) == len(orig) {
			return
		}
		judge(raw, touched, desc, fp, faults)
	}
	if sc.Enum {
		for bit := (1 + u.Pointer) * 8; bit < secEnd*8; bit++ {
			apply([]RotFault{{Kind: "flip", Bit: bit}})
		}
	} else {
		apply(sc.Faults)
	}
}

func rotMuxed(sc *BitrotScenario, out *core.Outcome) {
	if sc.Period < 1 {
		sc.Period = 1
	}
	o := core.NewOutcome()
	o.Log = out.Log
	ms := NewMuxSim(sc.Period, world.WriterPlan{}, o, false)
	ms.Run(sc.Ops)
	if sc.WFault {
		rotMuxedFaults(sc, out, len(ms.W.Calls))
	}
	kinds := map[string]bool{}
	for _, op := range sc.Ops {
		for _, d := range op.Descs {
			kinds[d.Kind] = true
			if len(d.Kind) > 6 && d.Kind[:6] == "typed:" {
				out.Fire("typed-descriptor")
			}
			if d.LenMode == 1 {
				out.Fire("length-zero-descriptor")
			}
		}
	}
	if len(ms.W.Buf)%188 != 0 {
		return // C04's business
	}
	pk, _ := refts.SplitPackets(ms.W.Buf)
	pmtPID := -1
	for i, raw := range pk {
		p := refts.DecodeLenient(raw)
		if p == nil || !p.HasPayload() {
			continue
		}
		isPAT := p.PID == 0
		isPMT := pmtPID >= 0 && int(p.PID) == pmtPID
		if !isPAT && !isPMT {
			continue
		}
		out.Evals++
		what := "PMT"
		if isPAT {
			what = "PAT"
		}
		secs, err := refts.Frame(p.Payload)
		if err != nil || len(secs) != 1 {
			out.Violate("C09", "muxed-section-framing", what, "packet %d (%s): payload does not frame to one section (err=%v, sections=%d)", i, what, err, len(secs))
			continue
		}
		s := secs[0]
		if !s.Complete {
			out.Violate("C09", "muxed-section-length", what, "packet %d (%s): section_length announces %d bytes but the packet holds fewer", i, what, s.End-s.Start-3)
			continue
		}
		if !s.CRCOK {
			out.Violate("C09", "muxed-section-crc", what, "packet %d (%s): CRC_32 residue of table_id..CRC is not 0 under the reference CRC (section_length %d): section_length or CRC_32 do not match the bytes written (descriptor kinds %v)", i, what, s.End-s.Start-3, sortedKeys(kinds))
			continue
		}
		for _, c := range p.Payload[s.End:] {
			if c != 0xff {
				out.Violate("C09", "muxed-section-length", what+"-trailer", "packet %d (%s): bytes other than 0xFF follow the section: more was written than section_length announces", i, what)
				break
			}
		}
		if isPAT {
			if ps, err := refts.ParseLong(p.Payload[s.Start:s.End]); err == nil {
				if t, err := refts.ParsePAT(ps); err == nil && len(t.Programs) > 0 {
					pmtPID = int(t.Programs[0].PID)
				}
			}
		} else {
			out.FP(fmt.Sprintf("M/%v/%d", sortedKeys(kinds), (s.End-s.Start)/32))
		}
	}
}

// rotMuxedFaults re-runs the history once per Write call with that call failing once. The bytes
// of every later call that succeeded are whole packets written by that call alone; its PAT/PMT
// packets must carry one well-formed section each, like any other the Muxer emits.
func rotMuxedFaults(sc *BitrotScenario, out *core.Outcome, total int) {
	one := func(j int) {
		o := core.NewOutcome()
		o.Log = out.Log
		out.Log.Add("fault", "writer-once", j, sc.Short)
		ms := NewMuxSim(sc.Period, world.WriterPlan{HasFault: true, FailCall: j, Short: sc.Short}, o, false)
		ms.Faulty = true
		pre := len(out.Violations)
		failed := false
		for i := range sc.Ops {
			before := ms.W.Faults
			rec := ms.Step(i, &sc.Ops[i])
			if ms.W.Faults != before {
				failed = true
				out.Fire("writer-fault-once")
				continue
			}
			if !failed || rec.Err != nil || rec.Skipped {
				continue
			}
			b := ms.W.Buf[rec.Off0:rec.Off1]
			if len(b) == 0 || len(b)%188 != 0 {
				continue
			}
			pk, _ := refts.SplitPackets(b)
			for k, raw := range pk {
				p := refts.DecodeLenient(raw)
				if p == nil || raw[0] != 0x47 || !p.HasPayload() || !p.PUSI {
					continue
				}
				what := ""
				switch {
				case p.PID == 0:
					what = "PAT"
				case ms.avoidPID >= 0 && int(p.PID) == ms.avoidPID:
					what = "PMT"
				default:
					continue
				}
				out.Evals++
				out.Probe("table-after-writer-fault")
				secs, err := refts.Frame(p.Payload)
				switch {
				case err != nil || len(secs) != 1:
					out.Violate("C09", "muxed-section-framing", what+"-after-writer-fault", "Write call %d failed once; call %d (%s) later succeeded and its packet %d (%s) does not frame to one section (err=%v, sections=%d)", j, i, sc.Ops[i].Op, k, what, err, len(secs))
				case !secs[0].Complete:
					out.Violate("C09", "muxed-section-length", what+"-after-writer-fault", "Write call %d failed once; call %d (%s) later succeeded and its %s announces more bytes than the packet holds", j, i, sc.Ops[i].Op, what)
				case !secs[0].CRCOK:
					out.Violate("C09", "muxed-section-crc", what+"-after-writer-fault", "Write call %d failed once; call %d (%s) later succeeded and its %s has a CRC_32 the reference decoder rejects", j, i, sc.Ops[i].Op, what)
				}
			}
		}
		if len(out.Violations) > pre {
			nsc := *sc
			nsc.FailOne = j + 1
			out.Narrow(pre, &nsc)
		}
	}
	if sc.FailOne > 0 {
		one(sc.FailOne - 1)
		return
	}
	// at most about 300 failing positions per history (every one for short histories, a stride
	// with a history-dependent offset for long ones): the cost of a run stays bounded
	step := total/300 + 1
	for j := (len(sc.Ops)*7 + sc.Short*3) % step; j < total; j += step {
		one(j)
	}
}

func (bitrot) Shrink(scAny any) []any {
	sc := scAny.(*BitrotScenario)
	var out []any
	if sc.Mode == "muxed" {
		for _, ops := range shrinkOps(sc.Ops) {
			out = append(out, &BitrotScenario{Mode: "muxed", Period: sc.Period, Ops: ops, WFault: sc.WFault, FailOne: sc.FailOne, Short: sc.Short})
			if sc.FailOne > 1 {
				// dropping an operation in front of the failing Write moves it
				for _, d := range []int{1, 2, 4, 8} {
					if sc.FailOne-d >= 1 {
						out = append(out, &BitrotScenario{Mode: "muxed", Period: sc.Period, Ops: ops, WFault: true, FailOne: sc.FailOne - d, Short: sc.Short})
					}
				}
			}
		}
		// drop single descriptors
		for i, op := range sc.Ops {
			for k := range op.Descs {
				c := append([]MuxOp{}, sc.Ops...)
				o := c[i]
				o.Descs = append(append([]DescSpec{}, op.Descs[:k]...), op.Descs[k+1:]...)
				c[i] = o
				out = append(out, &BitrotScenario{Mode: "muxed", Period: sc.Period, Ops: c, WFault: sc.WFault, FailOne: sc.FailOne, Short: sc.Short})
			}
			for k, d := range op.Descs {
				if d.N > 0 {
					c := append([]MuxOp{}, sc.Ops...)
					o := c[i]
					o.Descs = append([]DescSpec{}, op.Descs...)
					o.Descs[k].N = d.N - 1
					c[i] = o
					out = append(out, &BitrotScenario{Mode: "muxed", Period: sc.Period, Ops: c, WFault: sc.WFault, FailOne: sc.FailOne, Short: sc.Short})
				}
			}
		}
		return out
	}
	if sc.Enum {
		return nil
	}
	for i := range sc.Faults {
		if len(sc.Faults) > 1 {
			c := *sc
			c.Faults = append(append([]RotFault{}, sc.Faults[:i]...), sc.Faults[i+1:]...)
			out = append(out, &c)
		}
	}
	return out
}

func sameKeys(a, b []datumRec) string {
	if len(a) != len(b) {
		return "length"
	}
	for i := range a {
		if a[i].key != b[i].key {
			return "content"
		}
	}
	return ""
}
