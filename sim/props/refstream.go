package props

import (
	"time"

	"verif/sim/core"
	"verif/sim/refts"

	astits "github.com/asticode/go-astits"
)

// typedGarbage switches genDescs to typed tags with garbage bodies. It is set only for the
// duration of one GenModel call by the hostile-input generator (generation is single-threaded
// per process and the flag is part of no verdict).
var typedGarbage bool

// StreamCfg are the swarm knobs of the reference stream generator.
type StreamCfg struct {
	ES           int  // elementary stream PIDs
	PMT          int  // programs / PMT PIDs
	SI           bool // SI PIDs 0x10/0x11/0x12/0x14
	UnitsMin     int
	UnitsMax     int
	BigPES       bool // PES units longer than 16 packets
	MultiSec     bool // PSI units of several sections
	Bias         bool // start-code-biased payloads
	Full184      bool // only 184-byte chunks (plus the necessarily shorter one)
	NoAF         bool
	MaxPES       int
	PATRepeat    int
	BigPSI       bool // sections close to the 1021-byte limit (units of up to 6 packets)
	Straddle     bool // spec-legal sections continued in the next payload_unit_start packet
	TypedGarbage bool // descriptors with typed tags and arbitrary bodies (hostile inputs only)
	MidPCR       bool // PES units whose later packets carry PCRs as well
	HugePES      bool // one video unit of more than a thousand packets (a large frame)
	DiscPUSI     bool // some PES units start with discontinuity_indicator set (a splice point)
	SplitPAT     bool // the PAT may come as two sections listing different programs
	PATMove      bool // a second PAT version moves a program to another PMT PID
}

// typedTags are the descriptor tags the library has typed decoders for.
var typedTags = []uint8{0x6a, 0x28, 0x50, 0x54, 0x06, 0x7a, 0x4e, 0x7f, 0x0a, 0x58, 0x0e, 0x40, 0x55, 0x0f, 0x5f, 0x05, 0x48, 0x4d, 0x52, 0x59, 0x56, 0x45, 0x46}

// genDescsTyped draws descriptors with typed tags and arbitrary bodies of arbitrary length:
// well-framed for the loop they sit in, garbage for the decoder their tag selects.
func genDescsTyped(r *core.PRNG, max int) []refts.Desc {
	n := r.Pick(2, 3, 2)
	var ds []refts.Desc
	for i := 0; i < n; i++ {
		l := r.Pick(3, 3, 3, 2)
		switch l {
		case 0:
			l = r.Range(0, 3)
		case 1:
			l = r.Range(4, 8)
		case 2:
			l = r.Range(9, max+9)
		default:
			l = 0
		}
		ds = append(ds, refts.Desc{Tag: typedTags[r.Intn(len(typedTags))], Data: r.Bytes(l)})
	}
	return ds
}

func genDescs(r *core.PRNG, max int) []refts.Desc {
	if typedGarbage {
		return genDescsTyped(r, max)
	}
	n := r.Pick(5, 3, 1)
	var ds []refts.Desc
	for i := 0; i < n; i++ {
		if r.Chance(1, 8) {
			ds = append(ds, refts.Desc{Tag: uint8(r.Range(0x80, 0xfe))}) // empty descriptor
			continue
		}
		ds = append(ds, refts.Desc{Tag: uint8(r.Range(0x80, 0xfe)), Data: r.Bytes(r.Range(1, max))})
	}
	return ds
}

func descsToAstits(ds []refts.Desc) []*astits.Descriptor {
	var o []*astits.Descriptor
	for _, d := range ds {
		x := &astits.Descriptor{Tag: d.Tag, Length: uint8(len(d.Data))}
		if len(d.Data) > 0 {
			x.UserDefined = append([]byte{}, d.Data...)
		}
		o = append(o, x)
	}
	return o
}

// genTime draws a time between 1972 and 2037 (well inside the MJD range).
func genTime(r *core.PRNG) int64 { return 63072000 + int64(r.Intn(2050000000)) }

func genSection(r *core.PRNG, kind string, tag int, pat *refts.PAT, pmt *refts.PMT, big bool) refts.Section {
	for try := 0; ; try++ {
		s := genSection1(r, kind, tag, pat, pmt, big && try < 8)
		limit := 1024
		if kind == "EIT" {
			limit = 4096 // EN 300 468 5.1.1: EIT sections may be as long as 4096 bytes
		}
		if len(s.Encode()) <= limit {
			return s
		}
	}
}

// genDescsLong draws a descriptor loop of 256 to about 600 bytes (every loop length field is
// wider than 8 bits).
func genDescsLong(r *core.PRNG) []refts.Desc {
	var ds []refts.Desc
	for total, want := 0, r.Range(256, 600); total < want; {
		n := r.Range(60, 200)
		ds = append(ds, refts.Desc{Tag: uint8(r.Range(0x80, 0xfe)), Data: r.Bytes(n)})
		total += n + 2
	}
	return ds
}

func genSection1(r *core.PRNG, kind string, tag int, pat *refts.PAT, pmt *refts.PMT, big bool) refts.Section {
	mul := 1
	if big {
		mul = r.Range(3, 7)
	}
	// one loop of the section longer than 255 bytes (which one: by kind, below)
	long := big && !typedGarbage && r.Chance(1, 3)
	s := refts.Section{Version: uint8(r.Intn(32)), Next: r.Chance(1, 10), SecNum: uint8(r.Intn(3)), LastSec: uint8(r.Intn(3) + 2)}
	switch kind {
	case "PAT":
		p := *pat
		p.TSID = uint16(tag)
		s.PAT = &p
	case "PMT":
		p := *pmt
		p.ProgDescs = genDescs(r, 10)
		// the tag makes every PMT unit unique: it is carried in a private descriptor
		p.ProgDescs = append(p.ProgDescs, refts.Desc{Tag: 0xfe, Data: []byte{byte(tag >> 8), byte(tag)}})
		p.Streams = append([]refts.PMTStream{}, p.Streams...)
		for i := 0; big && i < mul*4; i++ {
			p.Streams = append(p.Streams, refts.PMTStream{Type: streamTypes[r.Intn(len(streamTypes))], PID: uint16(r.Range(0x20, 0x1ffe)), Descs: genDescs(r, 30)})
		}
		if long {
			if r.Bool() || len(p.Streams) == 0 {
				p.ProgDescs = append(genDescsLong(r), p.ProgDescs[len(p.ProgDescs)-1])
			} else {
				k := r.Intn(len(p.Streams))
				st := p.Streams[k]
				st.Descs = genDescsLong(r)
				p.Streams[k] = st
			}
		}
		s.PMT = &p
	case "SDT":
		t := &refts.SDT{Other: r.Chance(1, 4), TSID: uint16(tag), ONID: uint16(r.Intn(65536))}
		n := r.Pick(1, 4, 3, 1) * mul
		for i := 0; i < n; i++ {
			t.Services = append(t.Services, refts.SDTService{ID: uint16(r.Intn(65536)), EITSched: r.Bool(), EITPF: r.Bool(), Running: uint8(r.Intn(8)), FreeCA: r.Bool(), Descs: genDescs(r, 24)})
		}
		if long && len(t.Services) > 0 {
			t.Services[r.Intn(len(t.Services))].Descs = genDescsLong(r)
		}
		s.SDT = t
	case "NIT":
		t := &refts.NIT{Other: r.Chance(1, 4), NetworkID: uint16(tag), NetDescs: genDescs(r, 16)}
		n := r.Pick(1, 4, 2) * mul
		for i := 0; i < n; i++ {
			t.TS = append(t.TS, refts.NITTS{TSID: uint16(r.Intn(65536)), ONID: uint16(r.Intn(65536)), Descs: genDescs(r, 16)})
		}
		if long {
			switch r.Intn(3) {
			case 0:
				t.NetDescs = genDescsLong(r)
			case 1:
				// a transport stream loop longer than 255 bytes made of many short entries
				for len(t.TS) < 45 {
					t.TS = append(t.TS, refts.NITTS{TSID: uint16(r.Intn(65536)), ONID: uint16(r.Intn(65536))})
				}
			default:
				if len(t.TS) > 0 {
					t.TS[r.Intn(len(t.TS))].Descs = genDescsLong(r)
				}
			}
		}
		s.NIT = t
	case "EIT":
		tid := uint8(r.Range(0x4e, 0x6f))
		if r.Bool() {
			tid = []uint8{0x4e, 0x4f, 0x50, 0x5f, 0x60, 0x6f}[r.Intn(6)] // range boundaries
		}
		t := &refts.EIT{TableID: tid, ServiceID: uint16(tag), TSID: uint16(r.Intn(65536)), ONID: uint16(r.Intn(65536)), SegLast: uint8(r.Intn(256)), LastTableID: uint8(r.Range(0x4e, 0x6f))}
		n := r.Pick(1, 4, 2, 1) * mul
		for i := 0; i < n; i++ {
			t.Events = append(t.Events, refts.EITEvent{ID: uint16(r.Intn(65536)), Start: genTime(r), DurSecs: r.Intn(100*3600 - 1), Running: uint8(r.Intn(8)), FreeCA: r.Bool(), Descs: genDescs(r, 30)})
		}
		if big && !typedGarbage && r.Chance(1, 3) {
			// one event with a descriptor loop longer than 1023 bytes (the loop length is a 12-bit field)
			var ds []refts.Desc
			for k, nd := 0, r.Range(5, 9); k < nd; k++ {
				ds = append(ds, refts.Desc{Tag: uint8(r.Range(0x80, 0xfe)), Data: r.Bytes(r.Range(205, 250))})
			}
			at := r.Intn(len(t.Events) + 1)
			ev := refts.EITEvent{ID: uint16(r.Intn(65536)), Start: genTime(r), DurSecs: r.Intn(3600), Running: uint8(r.Intn(8)), Descs: ds}
			t.Events = append(t.Events[:at:at], append([]refts.EITEvent{ev}, t.Events[at:]...)...)
		}
		s.EIT = t
	case "TDT":
		return refts.Section{TDT: &refts.TDT{UTC: genTime(r)}}
	case "TOT":
		s.TOT = &refts.TOT{UTC: 63072000 + int64(tag)*86400 + int64(r.Intn(86400)), Descs: genDescs(r, 12)}
		if long {
			s.TOT.Descs = genDescsLong(r)
		}
	}
	return s
}

// genChunks splits total bytes into TS payload chunks. firstMax bounds the first chunk (room
// left by adaptation field content).
func genChunks(r *core.PRNG, total, firstMax int, full bool) []int {
	var cs []int
	rem := total
	for rem > 0 {
		max := 184
		if len(cs) == 0 && firstMax < max {
			max = firstMax
		}
		c := max
		if !full {
			switch r.Pick(12, 3, 1, 1, 1) {
			case 1:
				c = r.Range(1, max)
			case 2:
				c = 1
			case 3:
				c = max - 1
			case 4:
				c = r.Range(1, 8)
			}
		}
		if c > rem {
			c = rem
		}
		if c < 1 {
			c = 1
		}
		cs = append(cs, c)
		rem -= c
	}
	return cs
}

func genPESHeader(r *core.PRNG, unboundedOK bool) *refts.PESHeader {
	h := &refts.PESHeader{}
	switch r.Pick(5, 3, 1, 1) {
	case 0:
		h.StreamID = uint8(r.Range(0xe0, 0xef))
	case 1:
		h.StreamID = uint8(r.Range(0xc0, 0xdf))
	case 2:
		h.StreamID = 0xbd
	default:
		h.StreamID = 0xbf // no optional header
	}
	if h.StreamID >= 0xe0 && h.StreamID <= 0xef && unboundedOK && r.Chance(1, 2) {
		h.Unbounded = true
	}
	switch r.Pick(3, 4, 3) {
	case 1:
		h.HasPTS, h.PTS = true, r.Uint64()&(1<<33-1)
	case 2:
		h.HasPTS, h.HasDTS, h.PTS, h.DTS = true, true, r.Uint64()&(1<<33-1), r.Uint64()&(1<<33-1)
	}
	h.Align, h.Prio, h.Copyright, h.Original = r.Chance(1, 4), r.Chance(1, 6), r.Chance(1, 6), r.Chance(1, 6)
	if r.Chance(1, 6) {
		h.HasESCR, h.ESCR = true, &refts.Clock{Base: r.Uint64() & (1<<33 - 1), Ext: uint16(r.Intn(300))}
	}
	if r.Chance(1, 6) {
		h.HasRate, h.Rate = true, uint32(r.Intn(1<<22))
	}
	if r.Chance(1, 5) {
		h.HdrStuff = r.Range(1, 12)
	}
	return h
}

func genUnitAF(r *core.PRNG) *refts.AF {
	if !r.Chance(1, 4) {
		return nil
	}
	a := &refts.AF{RAI: r.Bool(), ESPI: r.Chance(1, 5)}
	if r.Bool() {
		a.PCR = genClock(r)
	}
	if r.Chance(1, 5) {
		a.HasPrivate, a.Private = true, r.Bytes(r.Intn(12))
	}
	if r.Chance(1, 8) {
		a.HasSplice, a.Splice = true, uint8(r.Intn(256))
	}
	return a
}

// GenModel draws a well-formed transport stream model.
func GenModel(r *core.PRNG, cfg StreamCfg) *refts.Model {
	typedGarbage = cfg.TypedGarbage
	defer func() { typedGarbage = false }()
	m := &refts.Model{}
	tag := 1
	nextTag := func() int { tag++; return tag }
	used := map[uint16]bool{0: true, 0x1fff: true}
	pickPID := func() uint16 {
		for {
			var p uint16
			if r.Chance(2, 3) {
				p = uint16(r.Range(0x20, 0x140))
			} else {
				p = uint16(r.Range(0x20, 0x1ffe))
			}
			if !used[p] {
				used[p] = true
				return p
			}
		}
	}
	var esPIDs []uint16
	for i := 0; i < cfg.ES; i++ {
		esPIDs = append(esPIDs, pickPID())
	}
	pat := &refts.PAT{}
	var pmts []*refts.PMT
	var pmtPIDs []uint16
	for i := 0; i < cfg.PMT; i++ {
		pp := pickPID()
		pmtPIDs = append(pmtPIDs, pp)
		pat.Programs = append(pat.Programs, refts.PATProgram{Number: uint16(i + 1), PID: pp})
		pm := &refts.PMT{Program: uint16(i + 1), PCRPID: 0x1fff}
		for k, e := range esPIDs {
			if cfg.PMT == 0 || k%cfg.PMT == i {
				pm.Streams = append(pm.Streams, refts.PMTStream{Type: streamTypes[r.Intn(len(streamTypes))], PID: e, Descs: genDescs(r, 8)})
				pm.PCRPID = e
			}
		}
		pmts = append(pmts, pm)
	}
	movedNumber, movedY := uint16(0), uint16(0)
	if cfg.PATMove && cfg.PMT > 0 && cfg.PATRepeat >= 2 {
		// one more program whose PMT PID changes with the second PAT version (its PMT is only
		// carried on the new PID)
		movedNumber, movedY = uint16(cfg.PMT+1), pickPID()
		pat.Programs = append(pat.Programs, refts.PATProgram{Number: movedNumber, PID: pickPID()})
	}
	if cfg.PMT > 0 && r.Chance(1, 4) {
		pat.Programs = append([]refts.PATProgram{{Number: 0, PID: 0x10}}, pat.Programs...)
	}
	units := func() int { return r.Range(cfg.UnitsMin, cfg.UnitsMax) }
	psiUnit := func(kinds []string, p *refts.PMT) refts.Unit {
		u := refts.Unit{Tag: nextTag(), Prio: r.Chance(1, 8)}
		u.Pointer = []int{0, 0, 0, 1, 3, 17}[r.Intn(6)]
		if r.Chance(1, 10) {
			u.Pointer = []int{r.Range(18, 182), r.Range(150, 182), 182, 181}[r.Intn(4)] // the whole legal range
		}
		ns := 1
		if cfg.MultiSec {
			ns = r.Pick(0, 5, 3, 2)
		}
		startLimit := 183 // every section must start inside the first packet
		room := startLimit - u.Pointer
		for k := 0; k < ns; k++ {
			kind := kinds[r.Intn(len(kinds))]
			tg := u.Tag
			if k > 0 {
				tg = nextTag()
			}
			sec := genSection(r, kind, tg, pat, p, cfg.BigPSI && kind != "PAT" && r.Chance(1, 2))
			enc := len(sec.Encode())
			if k > 0 && room <= 0 {
				break
			}
			u.Sections = append(u.Sections, sec)
			room -= enc
		}
		total := 1 + u.Pointer
		for i := range u.Sections {
			total += len(u.Sections[i].Encode())
		}
		firstMax := 184
		if !cfg.NoAF && r.Chance(1, 6) {
			u.AF = genUnitAF(r)
			if u.AF != nil {
				firstMax = 184 - u.AF.Size()
			}
		}
		// the first chunk must reach every section start (pointer + earlier sections + table_id
		// of the last one is not required: a start is the position of its first byte)
		need := 1 + u.Pointer
		for i := 0; i+1 < len(u.Sections); i++ {
			need += len(u.Sections[i].Encode())
		}
		if len(u.Sections) > 1 {
			need++ // first byte of the last section
		}
		if firstMax < need {
			u.AF = nil
			firstMax = 184
		}
		u.Chunks = genChunks(r, total, firstMax, cfg.Full184)
		if u.Chunks[0] < need {
			rest := total - need
			u.Chunks = []int{need}
			if rest > 0 {
				u.Chunks = append(u.Chunks, genChunks(r, rest, 184, cfg.Full184)...)
			}
		}
		// trailing 0xFF stuffing after the last section, inside the packet that holds its last
		// byte (the usual PSI layout), instead of adaptation-field stuffing
		last := len(u.Chunks) - 1
		max := 184
		if last == 0 {
			max = firstMax
		}
		switch r.Pick(4, 2, 1) {
		case 0:
			u.Chunks[last] = max
		case 2:
			u.Chunks[last] += r.Intn(max - u.Chunks[last] + 1)
		}
		return u
	}
	// PAT stream
	if cfg.PMT > 0 {
		s := refts.Stream{PID: 0, Kind: "PAT", CC0: uint8(r.Intn(16))}
		patVersion0 := uint8(0)
		n := cfg.PATRepeat
		if n < 1 {
			n = 1
		}
		for i := 0; i < n; i++ {
			u := psiUnit([]string{"PAT"}, nil)
			u.Sections = u.Sections[:1]
			fixSingle(r, &u, cfg)
			if movedNumber != 0 && u.Sections[0].PAT != nil {
				if i == 0 {
					patVersion0 = u.Sections[0].Version
				} else {
					p2 := *u.Sections[0].PAT
					p2.Programs = append([]refts.PATProgram{}, p2.Programs...)
					for k := range p2.Programs {
						if p2.Programs[k].Number == movedNumber {
							p2.Programs[k].PID = movedY
						}
					}
					u.Sections[0].PAT = &p2
					u.Sections[0].Version = (patVersion0 + 1) & 31
					u.Sections[0].Next = false
				}
			}
			if cfg.SplitPAT && len(pat.Programs) >= 2 && u.Sections[0].PAT != nil {
				// a PAT of two sections (section_number 0 and 1 of 1), each listing part of the programs
				a, b := u.Sections[0], u.Sections[0]
				pa, pb := *a.PAT, *a.PAT
				h := len(pa.Programs) / 2
				pa.Programs, pb.Programs = pa.Programs[:h:h], pb.Programs[h:]
				a.PAT, b.PAT = &pa, &pb
				a.SecNum, a.LastSec, b.SecNum, b.LastSec = 0, 1, 1, 1
				u.Sections = []refts.Section{a, b}
				u.AF = nil
				u.Chunks = []int{1 + u.Pointer + len(a.Encode()) + len(b.Encode())}
				if u.Chunks[0] > 184 {
					u.Pointer = 0
					u.Chunks = []int{1 + len(a.Encode()) + len(b.Encode())}
				}
			}
			s.Units = append(s.Units, u)
		}
		m.Streams = append(m.Streams, s)
		if movedNumber != 0 && len(s.Units) >= 2 {
			pmY := &refts.PMT{Program: movedNumber, PCRPID: 0x1fff}
			if r.Bool() {
				pmY.Streams = append(pmY.Streams, refts.PMTStream{Type: streamTypes[r.Intn(len(streamTypes))], PID: pickPID(), Descs: genDescs(r, 8)})
			}
			y := refts.Stream{PID: movedY, Kind: "PMT", CC0: uint8(r.Intn(16)), WaitPAT: len(s.Units[0].Chunks) + len(s.Units[1].Chunks)}
			for k, nu := 0, r.Range(1, 2); k < nu; k++ {
				y.Units = append(y.Units, psiUnit([]string{"PMT"}, pmY))
			}
			m.Streams = append(m.Streams, y)
		}
		for i, pp := range pmtPIDs {
			s := refts.Stream{PID: pp, Kind: "PMT", CC0: uint8(r.Intn(16))}
			n := units()
			for k := 0; k < n; k++ {
				s.Units = append(s.Units, psiUnit([]string{"PMT"}, pmts[i]))
			}
			m.Streams = append(m.Streams, s)
		}
	}
	hugeDone := false
	for _, e := range esPIDs {
		s := refts.Stream{PID: e, Kind: "PES", CC0: uint8(r.Intn(16))}
		n := units()
		for k := 0; k < n; k++ {
			u := refts.Unit{Tag: nextTag(), Prio: r.Chance(1, 8)}
			u.PES = genPESHeader(r, true)
			maxLen := cfg.MaxPES
			if maxLen == 0 {
				maxLen = 900
			}
			switch r.Pick(2, 5, 2) {
			case 0:
				u.Len = r.Range(0, 8)
			case 1:
				u.Len = r.Range(9, maxLen)
			default:
				hdr := len(refts.EncodePES(u.PES, nil))
				u.Len = r.Range(1, 4)*184 - hdr + r.Range(-2, 2)
				if u.Len < 0 {
					u.Len = 0
				}
			}
			if cfg.BigPES && r.Chance(1, 4) {
				u.Len = r.Range(17*184, 22*184)
			}
			if cfg.HugePES && !hugeDone {
				u.PES.StreamID = 0xe0
				u.PES.Unbounded = true
				u.Len = r.Range(1024*184, 1500*184)
				hugeDone = true
			}
			if cfg.Bias && r.Chance(1, 2) {
				u.Biased = true
				u.BiasXY = r.Chance(1, 3)
				if u.Len < 400 {
					u.Len = r.Range(400, 1200)
				}
			}
			firstMax := 184
			if !cfg.NoAF {
				u.AF = genUnitAF(r)
				if cfg.DiscPUSI && k > 0 && r.Chance(1, 3) {
					if u.AF == nil {
						u.AF = &refts.AF{}
					}
					u.AF.Disc = true
				}
				if u.AF != nil {
					firstMax = 184 - u.AF.Size()
				}
			}
			total := len(refts.EncodePES(u.PES, nil)) + u.Len
			u.Chunks = genChunks(r, total, firstMax, cfg.Full184 || u.Biased)
			if cfg.MidPCR && r.Chance(1, 2) {
				u.MidPCR = true
			}
			s.Units = append(s.Units, u)
		}
		m.Streams = append(m.Streams, s)
	}
	if cfg.SI {
		for _, si := range []struct {
			pid   uint16
			kinds []string
		}{{0x10, []string{"NIT"}}, {0x11, []string{"SDT"}}, {0x12, []string{"EIT"}}, {0x14, []string{"TOT", "TOT", "TDT"}}} {
			if !r.Chance(2, 3) {
				continue
			}
			s := refts.Stream{PID: si.pid, Kind: "SI", CC0: uint8(r.Intn(16))}
			n := units()
			for k := 0; k < n; k++ {
				s.Units = append(s.Units, psiUnit(si.kinds, nil))
			}
			m.Streams = append(m.Streams, s)
		}
	}
	if cfg.Straddle {
		for si := range m.Streams {
			st := &m.Streams[si]
			if st.Kind == "PES" {
				continue
			}
			for k := 1; k < len(st.Units); k++ {
				if !r.Chance(1, 2) || st.Units[k-1].Straddle > 0 {
					continue
				}
				if st.Kind == "PAT" && k == 1 {
					continue // the first PAT must arrive intact: PMT PIDs are only recognised after it
				}
				prev, cur := &st.Units[k-1], &st.Units[k]
				lastLen := len(prev.Sections[len(prev.Sections)-1].Encode())
				before := 0
				for i := 0; i+1 < len(cur.Sections); i++ {
					before += len(cur.Sections[i].Encode())
				}
				maxN := min(lastLen-1, 184-2-before-1)
				if maxN < 1 {
					continue
				}
				n := r.Range(1, maxN)
				cur.Straddle, cur.Pointer, cur.AF, prev.AF = n, 0, nil, nil
				pb := len(prev.Bytes()) - n
				needPrev := len(prev.Bytes()) - lastLen + 1
				if prev.Straddle > 0 {
					continue
				}
				prev.Chunks = rechunk(r, pb, needPrev, cfg.Full184)
				total := 1 + n
				for i := range cur.Sections {
					total += len(cur.Sections[i].Encode())
				}
				cur.Chunks = rechunk(r, total, 1+n+before+1, cfg.Full184)
			}
		}
	}
	m.Merge = GenMerge(r, m, r.Intn(4))
	return m
}

// rechunk packetises total bytes with a first chunk of at least need bytes.
func rechunk(r *core.PRNG, total, need int, full bool) []int {
	cs := genChunks(r, total, 184, full)
	if cs[0] < need {
		cs = []int{need}
		if total > need {
			cs = append(cs, genChunks(r, total-need, 184, full)...)
		}
	}
	return cs
}

// fixSingle re-derives the packetisation of a unit whose section list was cut to one.
func fixSingle(r *core.PRNG, u *refts.Unit, cfg StreamCfg) {
	total := 1 + u.Pointer + len(u.Sections[0].Encode())
	u.AF = nil
	u.Chunks = genChunks(r, total, 184, cfg.Full184)
	if r.Bool() {
		u.Chunks[len(u.Chunks)-1] = 184
	}
}

// packetCounts returns the number of packets of each stream and of the first unit of stream 0.
func packetCounts(m *refts.Model) (n []int) {
	for _, s := range m.Streams {
		c := 0
		for _, u := range s.Units {
			c += len(u.Chunks)
		}
		n = append(n, c)
	}
	return
}

// GenMerge draws an order-preserving multiplex schedule. PMT PIDs are only recognised after a
// PAT listing them has been delivered, so packets of PMT streams wait until the first PAT unit
// is complete; every other stream (ES, SI, the PAT itself) may start at once. With straddle,
// one multi-packet first PMT unit is allowed to begin before the PAT and finish after it (it
// is complete, and must be delivered, only after the PAT).
// mode: 0 uniform, 1 bursty, 2 starvation of one stream, 3 reverse priority.
func GenMerge(r *core.PRNG, m *refts.Model, mode int) []int {
	counts := packetCounts(m)
	left := append([]int{}, counts...)
	var picks []int
	patIdx := -1
	patLeft := 0
	patFirst := 0
	for i, s := range m.Streams {
		if s.Kind == "PAT" && len(s.Units) > 0 {
			patIdx = i
			patLeft = len(s.Units[0].Chunks)
			patFirst = patLeft
		}
	}
	// PAT packets a PMT stream waits for: the first PAT unit, or more for a PID that only a later
	// PAT version announces
	patSent := 0
	need := func(i int) int {
		if w := m.Streams[i].WaitPAT; w > 0 {
			return w
		}
		return patFirst
	}
	for _, s := range m.Streams {
		if s.Kind == "PMT" && s.WaitPAT > patLeft {
			patLeft = s.WaitPAT
		}
	}
	// budget of packets a PMT stream may send before the PAT is complete
	early := make([]int, len(m.Streams))
	if patIdx >= 0 && r.Chance(1, 6) {
		for i, s := range m.Streams {
			if s.Kind == "PMT" && len(s.Units) > 0 && len(s.Units[0].Chunks) >= 2 && s.Units[0].Straddle == 0 {
				early[i] = r.Range(1, len(s.Units[0].Chunks)-1)
				break
			}
		}
	}
	for i, s := range m.Streams {
		// a PID announced by a later PAT version may have been seen before that PAT arrives
		if s.Kind == "PMT" && s.WaitPAT > 0 && len(s.Units) > 0 && len(s.Units[0].Chunks) >= 2 && r.Bool() {
			early[i] = r.Range(1, len(s.Units[0].Chunks)-1)
		}
	}
	total := 0
	for _, c := range left {
		total += c
	}
	eligible := func(i int) bool {
		if left[i] == 0 {
			return false
		}
		if patIdx >= 0 && m.Streams[i].Kind == "PMT" && patSent < need(i) {
			return counts[i]-left[i] < early[i]
		}
		return true
	}
	starved := r.Intn(len(m.Streams) + 1)
	cur, burst := -1, 0
	for total > 0 {
		var cand []int
		for i := range left {
			if eligible(i) {
				cand = append(cand, i)
			}
		}
		if len(cand) == 0 {
			if patIdx < 0 || left[patIdx] == 0 {
				// cannot happen for generated models (a waiting stream implies PAT packets left);
				// release everything rather than loop
				for i := range left {
					if left[i] > 0 {
						cand = append(cand, i)
					}
				}
			} else {
				cand = []int{patIdx}
			}
		}
		var s int
		switch mode {
		case 1:
			if burst > 0 && cur >= 0 && eligible(cur) {
				s = cur
				burst--
			} else {
				s = cand[r.Intn(len(cand))]
				cur, burst = s, r.Range(1, 12)
			}
		case 2:
			s = cand[r.Intn(len(cand))]
			if s == starved && len(cand) > 1 {
				s = cand[(indexOf(cand, s)+1)%len(cand)]
			}
		case 3:
			s = cand[len(cand)-1]
			if r.Chance(1, 4) {
				s = cand[r.Intn(len(cand))]
			}
		default:
			s = cand[r.Intn(len(cand))]
		}
		// keep the PAT from being starved forever while PMT streams wait for it
		if patIdx >= 0 && patLeft > 0 && left[patIdx] > 0 && r.Chance(1, 3) {
			s = patIdx
		}
		picks = append(picks, s)
		left[s]--
		total--
		if s == patIdx {
			patSent++
			if patLeft > 0 {
				patLeft--
			}
		}
	}
	return picks
}

func pickLeft(r *core.PRNG, left []int, avoid int) int {
	var c []int
	for i, l := range left {
		if l > 0 && i != avoid {
			c = append(c, i)
		}
	}
	if len(c) == 0 {
		for i, l := range left {
			if l > 0 {
				return i
			}
		}
	}
	return c[r.Intn(len(c))]
}

// ---- expected output ------------------------------------------------------------------

func tsTime(unix int64) time.Time { return time.Unix(unix, 0).UTC() }

// ExpectedData is what a conformant demultiplexer delivers for one unit: one datum per
// section of a table type the library delivers (PAT, PMT, SDT, NIT, EIT, TOT), or the PES.
func ExpectedData(pid uint16, u *refts.Unit) []*astits.DemuxerData {
	if u.IsPES() {
		h := &astits.PESHeader{StreamID: u.PES.StreamID}
		if !refts.NoOptionalHeader(u.PES.StreamID) {
			o := &astits.PESOptionalHeader{MarkerBits: 2, Priority: u.PES.Prio, DataAlignmentIndicator: u.PES.Align, IsCopyrighted: u.PES.Copyright, IsOriginal: u.PES.Original}
			if u.PES.HasPTS {
				o.PTSDTSIndicator = 2
				o.PTS = &astits.ClockReference{Base: int64(u.PES.PTS)}
				if u.PES.HasDTS {
					o.PTSDTSIndicator = 3
					o.DTS = &astits.ClockReference{Base: int64(u.PES.DTS)}
				}
			}
			if u.PES.HasESCR {
				o.HasESCR, o.ESCR = true, clockRef(u.PES.ESCR)
			}
			if u.PES.HasRate {
				o.HasESRate, o.ESRate = true, u.PES.Rate
			}
			h.OptionalHeader = o
		}
		return []*astits.DemuxerData{{PID: pid, PES: &astits.PESData{Data: u.UnitPayload(), Header: h}}}
	}
	var out []*astits.DemuxerData
	for i := range u.Sections {
		s := &u.Sections[i]
		d := &astits.DemuxerData{PID: pid}
		switch {
		case s.PAT != nil:
			t := &astits.PATData{TransportStreamID: s.PAT.TSID}
			for _, p := range s.PAT.Programs {
				t.Programs = append(t.Programs, &astits.PATProgram{ProgramMapID: p.PID, ProgramNumber: p.Number})
			}
			d.PAT = t
		case s.PMT != nil:
			t := &astits.PMTData{ProgramNumber: s.PMT.Program, PCRPID: s.PMT.PCRPID, ProgramDescriptors: descsToAstits(s.PMT.ProgDescs)}
			for _, e := range s.PMT.Streams {
				t.ElementaryStreams = append(t.ElementaryStreams, &astits.PMTElementaryStream{ElementaryPID: e.PID, StreamType: astits.StreamType(e.Type), ElementaryStreamDescriptors: descsToAstits(e.Descs)})
			}
			d.PMT = t
		case s.SDT != nil:
			t := &astits.SDTData{OriginalNetworkID: s.SDT.ONID, TransportStreamID: s.SDT.TSID}
			for _, v := range s.SDT.Services {
				t.Services = append(t.Services, &astits.SDTDataService{Descriptors: descsToAstits(v.Descs), HasEITPresentFollowing: v.EITPF, HasEITSchedule: v.EITSched, HasFreeCSAMode: v.FreeCA, RunningStatus: v.Running, ServiceID: v.ID})
			}
			d.SDT = t
		case s.NIT != nil:
			t := &astits.NITData{NetworkDescriptors: descsToAstits(s.NIT.NetDescs), NetworkID: s.NIT.NetworkID}
			for _, v := range s.NIT.TS {
				t.TransportStreams = append(t.TransportStreams, &astits.NITDataTransportStream{OriginalNetworkID: v.ONID, TransportDescriptors: descsToAstits(v.Descs), TransportStreamID: v.TSID})
			}
			d.NIT = t
		case s.EIT != nil:
			t := &astits.EITData{LastTableID: s.EIT.LastTableID, OriginalNetworkID: s.EIT.ONID, SegmentLastSectionNumber: s.EIT.SegLast, ServiceID: s.EIT.ServiceID, TransportStreamID: s.EIT.TSID}
			for _, v := range s.EIT.Events {
				t.Events = append(t.Events, &astits.EITDataEvent{Descriptors: descsToAstits(v.Descs), Duration: time.Duration(v.DurSecs) * time.Second, EventID: v.ID, HasFreeCSAMode: v.FreeCA, RunningStatus: v.Running, StartTime: tsTime(v.Start)})
			}
			d.EIT = t
		case s.TOT != nil:
			d.TOT = &astits.TOTData{Descriptors: descsToAstits(s.TOT.Descs), UTCTime: tsTime(s.TOT.UTC)}
		default:
			continue
		}
		out = append(out, d)
	}
	return out
}

// contentKey renders the content of a datum (everything but FirstPacket) with parser-derived
// fields removed, for comparison against ExpectedData.
func contentKey(d *astits.DemuxerData) string {
	return core.Dump(d, "FirstPacket", "PacketLength", "HeaderLength", "HasOptionalFields", "Extension2Length")
}

// ExpectedPerPID lists, per PID and in order, the content keys of the data a model carries.
func ExpectedPerPID(m *refts.Model) map[uint16][]string {
	out := map[uint16][]string{}
	for si := range m.Streams {
		s := &m.Streams[si]
		for ui := range s.Units {
			for _, d := range ExpectedData(s.PID, &s.Units[ui]) {
				out[s.PID] = append(out[s.PID], contentKey(d))
			}
		}
	}
	return out
}
