package props

import (
	"encoding/json"
	"errors"
	"fmt"

	"verif/sim/core"
	"verif/sim/refts"
	"verif/sim/world"

	astits "github.com/asticode/go-astits"
)

// IOFaultScenario: failures of the underlying reader or writer (engine `io-faults`, C18).
type IOFaultScenario struct {
	Side string `json:"side"` // reader | writer
	// reader side
	Model *refts.Model `json:"model,omitempty"`
	Demux DemuxCfg     `json:"demux,omitempty"`
	API   string       `json:"api,omitempty"` // data | packet
	// writer side
	Period int     `json:"period,omitempty"`
	Ops    []MuxOp `json:"ops,omitempty"`
	// fault space
	Enum    bool `json:"enum,omitempty"`   // every fault position (reader: every byte offset; writer: every Write call index)
	Stride  int  `json:"stride,omitempty"` // enumerate every Stride-th position starting at Offset (long inputs)
	Offset  int  `json:"offset,omitempty"`
	At      int  `json:"at,omitempty"`      // single fault position
	Sticky  bool `json:"sticky,omitempty"`  // reader: error repeats; writer: permanent failure
	Partial bool `json:"partial,omitempty"` // reader: (n>0, E) form (sticky only); writer: short write
	Short   int  `json:"short,omitempty"`   // writer: bytes accepted by the failing call
}

type ioFaults struct{}

func init() { core.Register(ioFaults{}) }

func (ioFaults) Name() string    { return "io-faults" }
func (ioFaults) Props() []string { return []string{"C18"} }
func (ioFaults) Runs(tier string) int64 {
	if tier == "thorough" {
		return 25000
	}
	return 400
}

func (ioFaults) Meta() core.EngineMeta {
	return core.EngineMeta{
		Rule:       "Reader side: a reference stream is served by a SimReader that fails with a sentinel error at byte offset k - for EVERY k in [0,len] of short streams (a stride of offsets for long ones), one-shot and sticky, as (0,E) and (sticky only) together with the bytes below k, on seekable/plain/bufio readers with seeded chunk plans, explicit and auto-detected size, NextPacket and NextData. Writer side: a Muxer history (tables, WriteData whose last packet needs 0, 1, 2 or many stuffing bytes, adaptation-field variants, WritePacket) runs on a SimWriter that fails at Write call j - for EVERY j of the fault-free run (a stride for long ones), one-shot and permanent, (0,E) and short writes. evaluations = faulted executions; distinct = (side, API, reader kind/size mode or op kind of the failing call, fault mode, position class: in auto-detection / packet boundary / inside packet; for the writer the field class of the failing Write: header, adaptation field, payload, stuffing, table); non-trivial = the fault actually fired inside a call (always by construction; counted).",
		Real:       []string{"astits.Demuxer", "astits.Muxer", "astikit.BitsWriter", "bufio.Reader"},
		Stub:       []string{"SimReader / SimWriter with a materialised fault plan", "refts reference multiplexer (reader side input)"},
		FaultKinds: []string{"reader-fault-oneshot", "reader-fault-sticky", "reader-fault-partial", "reader-fault-in-autodetect", "writer-fault-oneshot", "writer-fault-permanent", "writer-fault-short", "writer-fault-in-tables", "writer-fault-in-writepacket"},
		Assumptions: []string{
			"the (n>0, E) reader form is only used with sticky errors: io.ReadFull legitimately drops an error that arrives together with the bytes completing its buffer, and a well-behaved reader then repeats it",
			"nothing is asserted about calls made after the call that reported the failure (writer: except that later calls during which a Write fails report it too)",
		},
		Levels: map[string]string{"C18": "fault_enumeration"},
	}
}

func (ioFaults) Decode(raw json.RawMessage) (any, error) {
	var sc IOFaultScenario
	err := json.Unmarshal(raw, &sc)
	return &sc, err
}

func (ioFaults) Generate(r *core.PRNG, tier string, idx int64) any {
	sc := &IOFaultScenario{Enum: true}
	if idx%2 == 0 {
		sc.Side = "reader"
		cfg := genStreamCfg(r)
		cfg.Straddle, cfg.BigPSI, cfg.BigPES = false, false, false
		cfg.UnitsMin, cfg.UnitsMax = 1, r.Range(1, 2)
		cfg.MaxPES = 400
		if cfg.ES > 2 {
			cfg.ES = 2
		}
		sc.Model = GenModel(r, cfg)
		sc.Demux.Reader = genReaderPlan(r, []string{"seekable", "plain", "bufio"})
		sc.Demux.PacketSize = 188
		if r.Chance(1, 3) {
			sc.Demux.PacketSize = 0
		}
		sc.API = []string{"data", "packet"}[r.Intn(2)]
		sc.Sticky = r.Bool()
		sc.Partial = sc.Sticky && r.Bool()
		n := 0
		for _, c := range packetCounts(sc.Model) {
			n += c
		}
		if n*188 > 1200 {
			sc.Stride = n*188/1200 + 1
			sc.Offset = r.Intn(sc.Stride)
		}
		return sc
	}
	sc.Side = "writer"
	sc.Period = []int{1, 2, 40}[r.Intn(3)]
	// short histories: setup, then 1..3 writing calls of selected shapes
	sc.Ops = []MuxOp{{Op: "add", H: -1, PID: uint16(r.Range(0x100, 0x1ff0)), Type: streamTypes[r.Intn(len(streamTypes))]}, {Op: "setpcr", H: 0}}
	if r.Chance(1, 3) {
		sc.Ops[0].Descs = []DescSpec{genDesc(r, 10)}
	}
	nw := r.Range(1, 3)
	tag := 1
	for i := 0; i < nw; i++ {
		switch r.Pick(6, 1, 1) {
		case 0:
			ps := genPESSpec(r, r.Chance(1, 3))
			op := MuxOp{Op: "data", H: 0, PES: &ps, Tag: tag}
			tag++
			af := 0
			if r.Chance(1, 3) {
				op.AF = genAF(r, 10, true)
				if r.Chance(1, 3) {
					// leave less room than the PES header needs: the adaptation field travels in a
					// packet of its own
					room := 184 - op.AF.Size()
					left := ps.HeaderSize() - r.Range(1, 3)
					if left >= 0 && room > left {
						op.AF.Stuffing = room - left
					}
				}
				af = op.AF.Size()
			}
			// last packet needing 0, 1, 2, many stuffing bytes
			hdr := ps.HeaderSize()
			k := r.Range(1, 2)
			want := []int{0, 1, 2, r.Range(3, 180)}[r.Intn(4)]
			op.Len = k*184 - hdr - af - want
			if af+hdr > 184 {
				op.Len = k*184 - hdr - want // the header starts a fresh packet
			}
			if op.Len < 1 {
				op.Len = r.Range(1, 20)
			}
			sc.Ops = append(sc.Ops, op)
		case 1:
			sc.Ops = append(sc.Ops, MuxOp{Op: "tables", H: -1})
		default:
			pk := &PktSpec{PID: 0x1f00, CC: uint8(r.Intn(16)), HasPayload: true, PayloadLen: r.Range(1, 150), Tag: tag}
			tag++
			if r.Bool() {
				pk.AF = genAF(r, 10, true)
			}
			sc.Ops = append(sc.Ops, MuxOp{Op: "packet", H: -1, Pkt: pk})
		}
	}
	sc.Sticky = r.Bool()
	sc.Partial = r.Chance(1, 3)
	sc.Short = r.Range(0, 3)
	return sc
}

func (ioFaults) Execute(scAny any, keepLog bool) *core.Outcome {
	sc := scAny.(*IOFaultScenario)
	out := core.NewOutcome()
	out.Log = core.NewLog(keepLog)
	if sc.Side == "reader" {
		ioReader(sc, out)
	} else {
		ioWriter(sc, out)
	}
	out.Steps = out.Evals
	return out
}

func ioReader(sc *IOFaultScenario, out *core.Outcome) {
	if sc.Model == nil {
		return
	}
	b, err := sc.Model.Build()
	if err != nil || len(b.Packets) == 0 {
		out.Probe("model-unbuildable")
		return
	}
	npk := len(b.Packets)
	out.Packets = int64(npk)
	data := refts.Join(b.Packets)
	cfg := sc.Demux
	if cfg.PacketSize == 0 && npk < 2 {
		cfg.PacketSize = 188
	}
	if cfg.Reader.Kind == "bufio" && cfg.Reader.BufioSize < 256 {
		cfg.Reader.BufioSize = 256
	}
	clean := cfg
	clean.Reader.HasFault = false
	pull := func(c DemuxCfg, log *core.Log) ([]DResult, *world.SimReader) {
		if sc.API == "packet" {
			return DemuxPackets(data, c, log, npk*4+32)
		}
		return DemuxData(data, c, log, npk*4+32)
	}
	key := func(r DResult) string {
		if r.P != nil {
			return core.Dump(r.P)
		}
		return resKey(r.D, r.Err)
	}
	// The fault-free run is the baseline. It may itself contain errors (an input the library
	// rejects for reasons that are other properties' business, e.g. known finding K02): an error
	// is part of the sequence, identified by its full text, and the same error at the same place
	// of a faulty run is not attributed to the fault.
	ekey := func(r DResult) string {
		if r.D != nil || r.P != nil {
			return key(r)
		}
		return "ERR:" + r.Err.Error()
	}
	base, _ := pull(clean, nil)
	var want []string
	for _, r := range base {
		if !errors.Is(r.Err, astits.ErrNoMorePackets) {
			want = append(want, ekey(r))
		}
	}
	one := func(k int) {
		out.Evals++
		c := cfg
		c.Reader.HasFault, c.Reader.FaultAt, c.Reader.FaultSticky, c.Reader.FaultPartial = true, k, sc.Sticky, sc.Partial && sc.Sticky
		out.Log.Add("fault", "reader", k, sc.Sticky, sc.Partial)
		pre := len(out.Violations)
		res, sr := pull(c, out.Log)
		posClass := "inside-packet"
		switch {
		case cfg.PacketSize == 0 && k < 193:
			posClass = "in-autodetect"
			out.Fire("reader-fault-in-autodetect")
		case k%188 == 0:
			posClass = "packet-boundary"
		}
		mode := "oneshot"
		if sc.Sticky {
			mode = "sticky"
			if sc.Partial {
				mode = "partial"
			}
		}
		out.Fire("reader-fault-" + mode)
		sig := fmt.Sprintf("%s/%s/%s/auto=%v", sc.API, cfg.Reader.Kind, mode, cfg.PacketSize == 0)
		n := 0
		reported := false
		for ci, r := range res {
			if r.D != nil || r.P != nil {
				if reported {
					break // nothing is asserted after the failure was reported
				}
				if n >= len(want) || ekey(r) != want[n] {
					out.Violate("C18", "not-a-prefix", sig, "reader fails at byte %d: result %d delivered before the failure is not the fault-free result %d", k, ci, n)
					break
				}
				n++
				continue
			}
			if errors.Is(r.Err, world.ErrInjected) {
				if errors.Is(r.Err, astits.ErrNoMorePackets) {
					out.Violate("C18", "reported-as-end", sig, "reader fails at byte %d: the error is reported as ErrNoMorePackets", k)
				}
				reported = true
				break
			}
			if errors.Is(r.Err, astits.ErrNoMorePackets) {
				if sr.FaultN > 0 {
					out.Violate("C18", "reader-error-swallowed", sig, "reader failed at byte %d (%s, delivered %d time(s)) but the demuxer reached ErrNoMorePackets without reporting it (%d results delivered, %d expected fault-free)", k, posClass, sr.FaultN, n, len(want))
				} else {
					out.Probe("reader-fault-not-reached")
				}
				break
			}
			// another error: the one the fault-free run reports at this very place, or a violation
			if n < len(want) && ekey(r) == want[n] {
				out.Probe("baseline-error-reproduced")
				n++
				continue
			}
			if sr.FaultN > 0 {
				out.Violate("C18", "reader-error-not-wrapped", sig, "reader fails at byte %d (%s): call %d returned %v, which does not wrap the reader's error", k, posClass, ci, r.Err)
			} else {
				out.Violate("C18", "spurious-error", sig, "reader fails at byte %d but before reaching it call %d returned %v", k, ci, r.Err)
			}
			break
		}
		if len(out.Violations) > pre {
			nsc := *sc
			nsc.Enum, nsc.Stride, nsc.At = false, 0, k
			out.Narrow(pre, &nsc)
		}
		out.FP(fmt.Sprintf("R/%s/%s", sig, posClass))
	}
	if sc.Enum {
		st := sc.Stride
		if st < 1 {
			st = 1
		}
		for k := sc.Offset % st; k <= len(data); k += st {
			one(k)
		}
	} else {
		one(sc.At)
	}
}

func ioWriter(sc *IOFaultScenario, out *core.Outcome) {
	if sc.Period < 1 {
		sc.Period = 1
	}
	// fault-free run: number of Write calls and which API call issues each
	ff := core.NewOutcome()
	fs := NewMuxSim(sc.Period, world.WriterPlan{}, ff, false)
	fs.Faulty = true
	fs.Run(sc.Ops)
	total := len(fs.W.Calls)
	if total == 0 {
		return
	}
	one := func(j int) {
		out.Evals++
		plan := world.WriterPlan{HasFault: true, FailCall: j, Permanent: sc.Sticky}
		if sc.Partial {
			plan.Short = sc.Short
		}
		o := core.NewOutcome()
		o.Log = out.Log
		out.Log.Add("fault", "writer", j, sc.Sticky, sc.Partial)
		pre := len(out.Violations)
		ms := NewMuxSim(sc.Period, plan, o, false)
		ms.Faulty = true
		fired := 0
		mode := "oneshot"
		if sc.Sticky {
			mode = "permanent"
		}
		if sc.Partial {
			out.Fire("writer-fault-short")
		}
		out.Fire("writer-fault-" + mode)
		fieldClass := ""
		for i := range sc.Ops {
			before := ms.W.Faults
			rec := ms.Step(i, &sc.Ops[i])
			if ms.W.Faults == before {
				continue
			}
			fired++
			accepted := rec.Off1 - rec.Off0
			opk := sc.Ops[i].Op
			if fired == 1 {
				// classify the failing Write by its offset within the packet being written
				off := (ms.W.Calls[j].Off) % 188
				switch {
				case opk == "tables":
					fieldClass = "table-packet"
					out.Fire("writer-fault-in-tables")
				case opk == "data" && ms.W.Calls[j].Len >= 188:
					fieldClass = "table-packet"
					out.Probe("writer-fault-in-auto-tables")
				case off < 4:
					fieldClass = "ts-header"
				case ms.W.Calls[j].Len > 1:
					fieldClass = "payload-slice"
				default:
					fieldClass = "byte-field"
				}
				if opk == "packet" {
					out.Fire("writer-fault-in-writepacket")
				}
				// the 1- and 2-byte stuffing adaptation fields sit right after the header
				if opk == "data" && off == 4 && ms.W.Calls[j].Len == 1 {
					// (a probe, not a required fault kind: it only exists while the library writes byte-wise)
					out.Probe("writer-fault-in-stuffing-af")
					fieldClass = "af-length-byte"
				}
			}
			sig := fmt.Sprintf("%s/%s", opk, mode)
			if rec.Err == nil {
				out.Violate("C18", "writer-error-swallowed", sig, "Write call %d (of %d; byte offset %d, %d bytes, %s) failed during API call %d (%s) but the call returned nil error (n=%d, accepted %d)", j, total, ms.W.Calls[j].Off, ms.W.Calls[j].Len, fieldClass, i, opk, rec.N, accepted)
			} else if !errors.Is(rec.Err, world.ErrInjected) {
				out.Violate("C18", "writer-error-not-wrapped", sig, "Write call %d failed during API call %d (%s) which returned %v: it does not wrap the writer's error", j, i, opk, rec.Err)
			}
			if rec.N > accepted {
				out.Violate("C18", "count-exceeds-accepted", sig, "API call %d (%s) returned n=%d but the writer accepted only %d bytes during it", i, opk, rec.N, accepted)
			}
			if !sc.Sticky {
				break // one-shot: nothing is asserted about later calls
			}
		}
		if fired == 0 {
			out.Probe("writer-fault-not-reached")
		}
		if len(out.Violations) > pre {
			nsc := *sc
			nsc.Enum, nsc.Stride, nsc.At = false, 0, j
			out.Narrow(pre, &nsc)
		}
		out.FP(fmt.Sprintf("W/%s/%s/%v", fieldClass, mode, sc.Partial))
	}
	if sc.Enum {
		st := sc.Stride
		if st < 1 {
			st = 1
		}
		for j := sc.Offset % st; j < total; j += st {
			one(j)
		}
	} else {
		one(sc.At)
	}
	out.Packets = int64(len(fs.W.Buf) / 188)
}

func (ioFaults) Shrink(scAny any) []any {
	sc := scAny.(*IOFaultScenario)
	var out []any
	if sc.Enum {
		return nil
	}
	if sc.Side == "reader" {
		if len(sc.Demux.Reader.Chunks) > 0 || sc.Demux.Reader.EOFWithData {
			c := *sc
			c.Demux.Reader = world.ReaderPlan{Kind: sc.Demux.Reader.Kind, BufioSize: sc.Demux.Reader.BufioSize}
			out = append(out, &c)
		}
		if sc.Demux.Reader.Kind != "seekable" {
			c := *sc
			c.Demux.Reader.Kind = "seekable"
			out = append(out, &c)
		}
		if sc.Partial {
			c := *sc
			c.Partial = false
			out = append(out, &c)
		}
		return out
	}
	// writer: dropping ops shifts Write indices; only trailing ops that come after the failing
	// call can go
	for n := len(sc.Ops) - 1; n >= 3; n-- {
		c := *sc
		c.Ops = sc.Ops[:n]
		out = append(out, &c)
	}
	if sc.Partial {
		c := *sc
		c.Partial = false
		out = append(out, &c)
	}
	return out
}
