package props

import (
	"time"

	"verif/sim/core"

	astits "github.com/asticode/go-astits"
)

// TypedDescNames lists the typed descriptors the library can write.
var TypedDescNames = []string{"AC3", "AVCVideo", "Component", "Content", "DataStreamAlignment", "EnhancedAC3", "ExtendedEvent",
	"Extension", "ISO639", "LocalTimeOffset", "MaximumBitrate", "NetworkName", "ParentalRating", "PrivateDataIndicator",
	"PrivateDataSpecifier", "Registration", "Service", "ShortEvent", "StreamIdentifier", "Subtitling", "Teletext", "VBIData", "VBITeletext"}

func lang(r *core.PRNG) []byte {
	l := []byte{byte('a' + r.Intn(26)), byte('a' + r.Intn(26)), byte('a' + r.Intn(26))}
	if r.Chance(1, 6) {
		l = l[:2]
	}
	return l
}

// TypedDesc builds a conformant value of the named typed descriptor: n is the number of items
// of list-valued descriptors (0..n), all variable parts are short.
func TypedDesc(name string, seed uint64, n int) *astits.Descriptor {
	r := core.NewPRNG(seed)
	d := &astits.Descriptor{}
	txt := func(max int) []byte { return r.Bytes(r.Intn(max + 1)) }
	switch name {
	case "AC3":
		d.Tag = astits.DescriptorTagAC3
		d.AC3 = &astits.DescriptorAC3{HasASVC: r.Bool(), HasBSID: r.Bool(), HasComponentType: r.Bool(), HasMainID: r.Bool(),
			ASVC: uint8(r.Intn(256)), BSID: uint8(r.Intn(256)), ComponentType: uint8(r.Intn(256)), MainID: uint8(r.Intn(256)), AdditionalInfo: txt(4)}
	case "AVCVideo":
		d.Tag = astits.DescriptorTagAVCVideo
		d.AVCVideo = &astits.DescriptorAVCVideo{AVC24HourPictureFlag: r.Bool(), AVCStillPresent: r.Bool(), CompatibleFlags: uint8(r.Intn(32)),
			ConstraintSet0Flag: r.Bool(), ConstraintSet1Flag: r.Bool(), ConstraintSet2Flag: r.Bool(), LevelIDC: uint8(r.Intn(256)), ProfileIDC: uint8(r.Intn(256))}
	case "Component":
		d.Tag = astits.DescriptorTagComponent
		d.Component = &astits.DescriptorComponent{ComponentTag: uint8(r.Intn(256)), ComponentType: uint8(r.Intn(256)), ISO639LanguageCode: lang(r),
			StreamContent: uint8(r.Intn(16)), StreamContentExt: uint8(r.Intn(16)), Text: txt(6)}
	case "Content":
		d.Tag = astits.DescriptorTagContent
		c := &astits.DescriptorContent{}
		for i := 0; i < n; i++ {
			c.Items = append(c.Items, &astits.DescriptorContentItem{ContentNibbleLevel1: uint8(r.Intn(16)), ContentNibbleLevel2: uint8(r.Intn(16)), UserByte: uint8(r.Intn(256))})
		}
		d.Content = c
	case "DataStreamAlignment":
		d.Tag = astits.DescriptorTagDataStreamAlignment
		d.DataStreamAlignment = &astits.DescriptorDataStreamAlignment{Type: uint8(r.Range(1, 4))}
	case "EnhancedAC3":
		d.Tag = astits.DescriptorTagEnhancedAC3
		d.EnhancedAC3 = &astits.DescriptorEnhancedAC3{HasASVC: r.Bool(), HasBSID: r.Bool(), HasComponentType: r.Bool(), HasMainID: r.Bool(),
			HasSubStream1: r.Bool(), HasSubStream2: r.Bool(), HasSubStream3: r.Bool(), MixInfoExists: r.Bool(),
			ASVC: uint8(r.Intn(256)), BSID: uint8(r.Intn(256)), ComponentType: uint8(r.Intn(256)), MainID: uint8(r.Intn(256)),
			SubStream1: uint8(r.Intn(256)), SubStream2: uint8(r.Intn(256)), SubStream3: uint8(r.Intn(256)), AdditionalInfo: txt(4)}
	case "ExtendedEvent":
		d.Tag = astits.DescriptorTagExtendedEvent
		e := &astits.DescriptorExtendedEvent{ISO639LanguageCode: lang(r), LastDescriptorNumber: uint8(r.Intn(16)), Number: uint8(r.Intn(16)), Text: txt(6)}
		for i := 0; i < n; i++ {
			e.Items = append(e.Items, &astits.DescriptorExtendedEventItem{Content: txt(5), Description: txt(5)})
		}
		d.ExtendedEvent = e
	case "Extension":
		d.Tag = astits.DescriptorTagExtension
		if r.Bool() {
			sa := &astits.DescriptorExtensionSupplementaryAudio{EditorialClassification: uint8(r.Intn(32)), HasLanguageCode: r.Bool(), MixType: r.Bool(), PrivateData: txt(4)}
			if sa.HasLanguageCode {
				sa.LanguageCode = lang(r)
				if r.Chance(1, 3) {
					sa.LanguageCode = sa.LanguageCode[:r.Intn(3)] // shorter than the 3 bytes on the wire
				}
			}
			d.Extension = &astits.DescriptorExtension{Tag: astits.DescriptorTagExtensionSupplementaryAudio, SupplementaryAudio: sa}
		} else {
			u := txt(6)
			d.Extension = &astits.DescriptorExtension{Tag: uint8(r.Range(0x10, 0x7f)), Unknown: &u}
		}
	case "ISO639":
		d.Tag = astits.DescriptorTagISO639LanguageAndAudioType
		l := lang(r)
		if r.Chance(1, 3) {
			l = l[:2] // "in some actual cases the language is described in only 2 bytes"; the writer pads
		}
		d.ISO639LanguageAndAudioType = &astits.DescriptorISO639LanguageAndAudioType{Language: l, Type: uint8(r.Intn(4))}
	case "LocalTimeOffset":
		d.Tag = astits.DescriptorTagLocalTimeOffset
		l := &astits.DescriptorLocalTimeOffset{}
		for i := 0; i < n; i++ {
			l.Items = append(l.Items, &astits.DescriptorLocalTimeOffsetItem{CountryCode: lang(r), CountryRegionID: uint8(r.Intn(64)),
				LocalTimeOffset: time.Duration(r.Intn(13))*time.Hour + time.Duration(r.Intn(60))*time.Minute, LocalTimeOffsetPolarity: r.Bool(),
				NextTimeOffset: time.Duration(r.Intn(13))*time.Hour + time.Duration(r.Intn(60))*time.Minute, TimeOfChange: time.Unix(genTime(r), 0).UTC()})
		}
		d.LocalTimeOffset = l
	case "MaximumBitrate":
		d.Tag = astits.DescriptorTagMaximumBitrate
		d.MaximumBitrate = &astits.DescriptorMaximumBitrate{Bitrate: uint32(r.Intn(1<<22)) * 50}
	case "NetworkName":
		d.Tag = astits.DescriptorTagNetworkName
		d.NetworkName = &astits.DescriptorNetworkName{Name: txt(10)}
	case "ParentalRating":
		d.Tag = astits.DescriptorTagParentalRating
		p := &astits.DescriptorParentalRating{}
		for i := 0; i < n; i++ {
			p.Items = append(p.Items, &astits.DescriptorParentalRatingItem{CountryCode: lang(r), Rating: uint8(r.Intn(256))})
		}
		d.ParentalRating = p
	case "PrivateDataIndicator":
		d.Tag = astits.DescriptorTagPrivateDataIndicator
		d.PrivateDataIndicator = &astits.DescriptorPrivateDataIndicator{Indicator: uint32(r.Uint64())}
	case "PrivateDataSpecifier":
		d.Tag = astits.DescriptorTagPrivateDataSpecifier
		d.PrivateDataSpecifier = &astits.DescriptorPrivateDataSpecifier{Specifier: uint32(r.Uint64())}
	case "Registration":
		d.Tag = astits.DescriptorTagRegistration
		d.Registration = &astits.DescriptorRegistration{FormatIdentifier: uint32(r.Uint64()), AdditionalIdentificationInfo: txt(5)}
	case "Service":
		d.Tag = astits.DescriptorTagService
		d.Service = &astits.DescriptorService{Name: txt(6), Provider: txt(6), Type: uint8(r.Intn(256))}
	case "ShortEvent":
		d.Tag = astits.DescriptorTagShortEvent
		d.ShortEvent = &astits.DescriptorShortEvent{EventName: txt(6), Language: lang(r), Text: txt(6)}
	case "StreamIdentifier":
		d.Tag = astits.DescriptorTagStreamIdentifier
		d.StreamIdentifier = &astits.DescriptorStreamIdentifier{ComponentTag: uint8(r.Intn(256))}
	case "Subtitling":
		d.Tag = astits.DescriptorTagSubtitling
		s := &astits.DescriptorSubtitling{}
		for i := 0; i < n; i++ {
			s.Items = append(s.Items, &astits.DescriptorSubtitlingItem{AncillaryPageID: uint16(r.Intn(65536)), CompositionPageID: uint16(r.Intn(65536)), Language: lang(r), Type: uint8(r.Intn(256))})
		}
		d.Subtitling = s
	case "Teletext", "VBITeletext":
		t := &astits.DescriptorTeletext{}
		for i := 0; i < n; i++ {
			t.Items = append(t.Items, &astits.DescriptorTeletextItem{Language: lang(r), Magazine: uint8(r.Intn(8)), Page: uint8(r.Intn(10)<<4 | r.Intn(10)), Type: uint8(r.Intn(32))})
		}
		if name == "Teletext" {
			d.Tag, d.Teletext = astits.DescriptorTagTeletext, t
		} else {
			d.Tag, d.VBITeletext = astits.DescriptorTagVBITeletext, t
		}
	case "VBIData":
		d.Tag = astits.DescriptorTagVBIData
		v := &astits.DescriptorVBIData{}
		for i := 0; i < n; i++ {
			s := &astits.DescriptorVBIDataService{DataServiceID: []uint8{1, 2, 4, 5, 6, 7, 3, 0x10}[r.Intn(8)]}
			lines := r.Intn(4)
			for k := 0; k < lines; k++ {
				s.Descriptors = append(s.Descriptors, &astits.DescriptorVBIDataDescriptor{FieldParity: r.Bool(), LineOffset: uint8(r.Intn(32))})
			}
			v.Services = append(v.Services, s)
		}
		d.VBIData = v
	}
	return d
}
