package props

import (
	"encoding/json"
	"fmt"

	"verif/sim/core"
	"verif/sim/refts"
	"verif/sim/world"
)

// ReadVariant is one way of reading and framing the same stream.
type ReadVariant struct {
	Reader world.ReaderPlan `json:"reader"`
	Auto   bool             `json:"auto,omitempty"` // packet size auto-detected
	K      int              `json:"k,omitempty"`    // stream re-framed to 188+K byte packets
}

// ReadSchedScenario: one byte stream under many read schedules / reader kinds / framings
// (engine `read-schedule`, C08).
type ReadSchedScenario struct {
	Model    *refts.Model  `json:"model"`
	Variants []ReadVariant `json:"variants"`
	// EnumBoundary > 0: in addition, one variant per offset 1..400 with a single read boundary
	// there (reader kind and size option cycle with the offset, shifted by EnumBoundary)
	EnumBoundary int `json:"enum_boundary,omitempty"`
}

type readSched struct{}

func init() { core.Register(readSched{}) }

func (readSched) Name() string    { return "read-schedule" }
func (readSched) Props() []string { return []string{"C08"} }
func (readSched) Runs(tier string) int64 {
	if tier == "thorough" {
		return 300000
	}
	return 6000
}

func (readSched) Meta() core.EngineMeta {
	return core.EngineMeta{
		Rule:       "One reference stream is read through many SimReaders that differ only in read schedule (fixed chunk sizes 1..400, seeded chunk lists, one chunk boundary at a seeded offset of the first 400 bytes - one run in forty tries every offset 1..400 -, EOF delivered together with the last bytes), reader kind (seekable, real bufio.Reader, plain), packet size option (explicit or auto-detected) and framing (188+k bytes, k in {1..4,16}, explicit; auto-detected for 189..192). NextPacket and NextData sequences are compared with the canonical run (explicit 188, one big read); plain readers with auto-detection are compared with each other only (the library documents that it re-synchronises by consuming packets). evaluations = demux executions; distinct = (reader kind, auto, k, chunk-plan class, stream shape class); non-trivial = a read boundary fell inside a packet.",
		Real:       []string{"astits.Demuxer and everything below it", "bufio.Reader"},
		Stub:       []string{"refts reference multiplexer and 188+k re-framer", "SimReader (short reads per plan)"},
		FaultKinds: []string{"short-read", "one-byte-reads", "boundary-in-first-400", "eof-with-data", "kind-bufio", "kind-plain", "auto-detect", "frame-188+k"},
		Assumptions: []string{
			"auto-detection needs at least two packets and, for sizes above 188, no 0x47 among bytes 188..size-1 of the stream (inherent to the heuristic); bufio buffers are at least 256 bytes when the size is auto-detected (the detection peeks at 193 bytes) and at least 16 bytes otherwise",
		},
		Levels: map[string]string{"C08": "exploration"},
	}
}

func (readSched) Decode(raw json.RawMessage) (any, error) {
	var sc ReadSchedScenario
	err := json.Unmarshal(raw, &sc)
	return &sc, err
}

func genVariantPlan(r *core.PRNG, kind string) world.ReaderPlan {
	p := world.ReaderPlan{Kind: kind}
	switch r.Pick(4, 3, 3, 2, 1) {
	case 0:
		p.Chunks = []int{r.Range(1, 400)}
	case 1:
		n := r.Range(2, 16)
		for i := 0; i < n; i++ {
			p.Chunks = append(p.Chunks, r.Range(1, 300))
		}
	case 2:
		p.Chunks = []int{r.Range(1, 400), 1 << 20} // one boundary in the first 400 bytes
	case 3:
		p.Chunks = []int{[]int{1, 2, 187, 188, 189, 192, 193, 194}[r.Intn(8)]}
	}
	p.EOFWithData = r.Chance(1, 3)
	if kind == "bufio" {
		// (buffers smaller than the 193-byte detection window are used with an explicit size only)
		p.BufioSize = []int{256, 257, 512, 4096, 1 << 16, 16, 100, 187, 190}[r.Intn(9)]
	}
	return p
}

func (readSched) Generate(r *core.PRNG, tier string, idx int64) any {
	cfg := genStreamCfg(r)
	cfg.Straddle = false
	cfg.UnitsMin, cfg.UnitsMax = 1, r.Range(2, 3)
	cfg.BigPSI, cfg.BigPES = false, r.Chance(1, 10)
	sc := &ReadSchedScenario{Model: GenModel(r, cfg)}
	n := 10
	if tier == "thorough" {
		n = 24
	}
	kinds := []string{"seekable", "bufio", "plain"}
	for i := 0; i < n; i++ {
		v := ReadVariant{Reader: genVariantPlan(r, kinds[r.Intn(3)])}
		v.Auto = r.Chance(1, 2)
		if r.Chance(1, 3) {
			v.K = []int{1, 2, 3, 4, 16}[r.Intn(5)]
			if v.K > 4 {
				v.Auto = false
			}
		}
		sc.Variants = append(sc.Variants, v)
	}
	if idx%40 == 7 {
		sc.EnumBoundary = 1 + r.Intn(6)
	}
	return sc
}

// reframe turns 188-byte packets into 188+k byte packets: sync byte, k extra bytes, the
// remaining 187 bytes (the layout the library's own tests use). Extra bytes avoid 0x47.
func reframe(pk [][]byte, k int) []byte {
	if k == 0 {
		return refts.Join(pk)
	}
	out := make([]byte, 0, len(pk)*(188+k))
	for i, p := range pk {
		out = append(out, p[0])
		for j := 0; j < k; j++ {
			out = append(out, byte(0x10+((i+j)&0x1f)))
		}
		out = append(out, p[1:]...)
	}
	return out
}

type seqResult struct {
	pk, data []string
	endOK    bool
}

func runVariant(data []byte, cfg DemuxCfg, log *core.Log, npk int) seqResult {
	var sr seqResult
	pr, _ := DemuxPackets(data, cfg, log, npk*2+16)
	for _, r := range pr {
		if r.P != nil {
			sr.pk = append(sr.pk, core.Dump(r.P))
		} else if errClass(r.Err) != "ErrNoMorePackets" {
			sr.pk = append(sr.pk, "ERR:"+errClass(r.Err))
		}
	}
	sr.endOK = len(pr) > 0 && errClass(pr[len(pr)-1].Err) == "ErrNoMorePackets"
	dr, _ := DemuxData(data, cfg, log, npk*4+16)
	for _, r := range dr {
		if r.D != nil {
			sr.data = append(sr.data, core.Dump(r.D))
		} else if errClass(r.Err) != "ErrNoMorePackets" {
			sr.data = append(sr.data, "ERR:"+errClass(r.Err))
		}
	}
	sr.endOK = sr.endOK && len(dr) > 0 && errClass(dr[len(dr)-1].Err) == "ErrNoMorePackets"
	return sr
}

func planClass(p world.ReaderPlan) string {
	switch {
	case len(p.Chunks) == 0:
		return "big"
	case len(p.Chunks) == 1 && p.Chunks[0] == 1:
		return "1"
	case len(p.Chunks) == 1 && p.Chunks[0] < 188:
		return "<188"
	case len(p.Chunks) == 1 && p.Chunks[0] < 193:
		return "188-192"
	case len(p.Chunks) == 1:
		return ">=193"
	case len(p.Chunks) == 2 && p.Chunks[1] >= 1<<20:
		return "boundary"
	}
	return "list"
}

func (readSched) Execute(scAny any, keepLog bool) *core.Outcome {
	sc := scAny.(*ReadSchedScenario)
	out := core.NewOutcome()
	out.Log = core.NewLog(keepLog)
	b, err := sc.Model.Build()
	if err != nil || len(b.Packets) == 0 {
		out.Probe("model-unbuildable")
		return out
	}
	npk := len(b.Packets)
	out.Packets = int64(npk)
	canon := runVariant(refts.Join(b.Packets), DemuxCfg{PacketSize: 188, Reader: world.ReaderPlan{Kind: "seekable"}}, nil, npk)
	out.Evals++
	plainAuto := map[int]*seqResult{}
	plainAutoV := map[int]ReadVariant{}
	shape := fmt.Sprint(len(sc.Model.Streams), npk > 16)
	variants := sc.Variants
	if sc.EnumBoundary > 0 {
		kinds := []string{"seekable", "bufio", "plain"}
		for off := 1; off <= 400; off++ {
			x := off + sc.EnumBoundary
			v := ReadVariant{Reader: world.ReaderPlan{Kind: kinds[x%3], Chunks: []int{off, 1 << 20}}, Auto: (x/3)%2 == 0}
			if v.Reader.Kind == "bufio" {
				v.Reader.BufioSize = []int{256, 4096}[(x/6)%2]
			}
			variants = append(variants, v)
		}
		out.Probe("every-boundary-of-the-first-400-bytes")
	}
	for vi, v := range variants {
		if v.K < 0 || v.K > 64 {
			continue
		}
		auto := v.Auto
		if auto && (npk < 2 || v.K > 4) {
			auto = false // scope of the heuristic
		}
		if v.Reader.Kind == "bufio" && v.Reader.BufioSize < 256 && (auto || v.Reader.BufioSize < 16) {
			v.Reader.BufioSize = 256
		}
		data := reframe(b.Packets, v.K)
		if auto && v.K > 0 {
			// scope: no sync byte among bytes 188..size-1
			bad := false
			for _, c := range data[188 : 188+v.K] {
				if c == 0x47 {
					bad = true
				}
			}
			if bad {
				auto = false
			}
		}
		cfg := DemuxCfg{PacketSize: 188 + v.K, Reader: v.Reader}
		if auto {
			cfg.PacketSize = 0
		}
		out.Log.Add("variant", fmt.Sprint(vi), v.Reader.Kind, auto, v.K, planClass(v.Reader))
		got := runVariant(data, cfg, out.Log, npk)
		out.Evals++
		if len(v.Reader.Chunks) > 0 {
			out.Fire("short-read")
			if planClass(v.Reader) == "1" {
				out.Fire("one-byte-reads")
			}
			if planClass(v.Reader) == "boundary" {
				out.Fire("boundary-in-first-400")
			}
		}
		if v.Reader.EOFWithData {
			out.Fire("eof-with-data")
		}
		if v.Reader.Kind != "seekable" {
			out.Fire("kind-" + v.Reader.Kind)
		}
		if auto {
			out.Fire("auto-detect")
		}
		if v.K > 0 {
			out.Fire("frame-188+k")
		}
		if len(v.Reader.Chunks) > 0 {
			out.FP(fmt.Sprintf("%s/%v/%d/%s/%s", v.Reader.Kind, auto, v.K, planClass(v.Reader), shape))
		}
		sig := fmt.Sprintf("%s/auto=%v/k=%d", v.Reader.Kind, auto, min(v.K, 1))
		pre := len(out.Violations)
		if v.Reader.Kind == "plain" && auto {
			// A plain reader cannot be rewound after the 193-byte probe: the library documents that
			// it re-synchronises on the next packet boundary, losing the packets it probed. What is
			// left must be an unaltered suffix of the canonical packet sequence (at most the first
			// two packets missing), and the same for every read plan.
			okSuffix := false
			for lost := 0; lost <= 2 && lost <= len(canon.pk); lost++ {
				if ok, _ := seqEq(canon.pk[lost:], got.pk); ok {
					okSuffix = true
				}
			}
			if !okSuffix {
				out.Violate("C08", "packets-depend-on-read-schedule", sig+"/not-a-suffix", "plain reader, auto-detected size, k=%d, plan %s: the NextPacket sequence (%d packets) is not the canonical sequence (%d packets) minus at most its first two packets", v.K, planClass(v.Reader), len(got.pk), len(canon.pk))
				out.Narrow(pre, &ReadSchedScenario{Model: sc.Model, Variants: []ReadVariant{v}})
			}
			if ref, ok := plainAuto[v.K]; ok {
				if okp, msg := seqEq(ref.pk, got.pk); !okp {
					out.Violate("C08", "packets-depend-on-read-schedule", sig, "plain reader, auto-detected size, k=%d: NextPacket sequence differs between read plans %s and %s: %s", v.K, planClass(plainAutoV[v.K].Reader), planClass(v.Reader), msg)
				}
				if okd, msg := seqEq(ref.data, got.data); !okd {
					out.Violate("C08", "data-depend-on-read-schedule", sig, "plain reader, auto-detected size, k=%d: NextData sequence differs between read plans: %s", v.K, msg)
				}
				if len(out.Violations) > pre {
					out.Narrow(pre, &ReadSchedScenario{Model: sc.Model, Variants: []ReadVariant{plainAutoV[v.K], v}})
				}
			} else {
				g := got
				plainAuto[v.K] = &g
				plainAutoV[v.K] = v
			}
		} else {
			if okp, msg := seqEq(canon.pk, got.pk); !okp {
				out.Violate("C08", "packets-depend-on-read-schedule", sig, "%s reader, auto=%v, k=%d, plan %s %v: NextPacket sequence differs from the canonical run: %s", v.Reader.Kind, auto, v.K, planClass(v.Reader), core.Short(fmt.Sprint(v.Reader.Chunks), 60), msg)
			} else if okd, msg := seqEq(canon.data, got.data); !okd {
				out.Violate("C08", "data-depend-on-read-schedule", sig, "%s reader, auto=%v, k=%d, plan %s: NextData sequence differs from the canonical run: %s", v.Reader.Kind, auto, v.K, planClass(v.Reader), msg)
			}
			if len(out.Violations) > pre {
				out.Narrow(pre, &ReadSchedScenario{Model: sc.Model, Variants: []ReadVariant{v}})
			}
		}
		if !got.endOK && len(out.Violations) == pre {
			out.Violate("C08", "no-end", sig, "%s reader, auto=%v, k=%d, plan %s: ErrNoMorePackets not reached", v.Reader.Kind, auto, v.K, planClass(v.Reader))
			out.Narrow(pre, &ReadSchedScenario{Model: sc.Model, Variants: []ReadVariant{v}})
		}
	}
	out.Steps = out.Evals
	return out
}

func (readSched) Shrink(scAny any) []any {
	sc := scAny.(*ReadSchedScenario)
	var out []any
	if len(sc.Variants) > 1 {
		for i := range sc.Variants {
			out = append(out, &ReadSchedScenario{Model: sc.Model, Variants: []ReadVariant{sc.Variants[i]}})
		}
	}
	for _, m := range shrinkModel(sc.Model) {
		out = append(out, &ReadSchedScenario{Model: m, Variants: sc.Variants})
	}
	for i, v := range sc.Variants {
		if len(v.Reader.Chunks) > 1 {
			c := append([]ReadVariant{}, sc.Variants...)
			c[i].Reader.Chunks = v.Reader.Chunks[:1]
			out = append(out, &ReadSchedScenario{Model: sc.Model, Variants: c})
		}
		if v.Reader.EOFWithData {
			c := append([]ReadVariant{}, sc.Variants...)
			c[i].Reader.EOFWithData = false
			out = append(out, &ReadSchedScenario{Model: sc.Model, Variants: c})
		}
	}
	return out
}
