package props

import (
	"bytes"
	"encoding/json"
	"fmt"
	"sort"

	"verif/sim/core"
	"verif/sim/refts"
	"verif/sim/world"

	astits "github.com/asticode/go-astits"
)

// ChanFault is one fault of the packet channel. At indexes the fault-free multiplex.
type ChanFault struct {
	Kind string `json:"kind"`          // dup | drop
	At   int    `json:"at"`            // packet index in the fault-free stream
	Gap  int    `json:"gap,omitempty"` // dup: number of following packets the copy is delayed by (never past the next packet of its PID)
	N    int    `json:"n,omitempty"`   // drop: number of consecutive packets of that PID to drop (default 1)
	// dup: the copy carries another PCR value than the original (if it carries one), which is the
	// one difference ISO 13818-1 2.4.3.3 allows between a packet and its duplicate
	Restamp bool `json:"restamp,omitempty"`
}

// LossyScenario: a reference stream carried through a lossy/duplicating packet channel
// (engine `lossy-channel`, C06).
type LossyScenario struct {
	Model  *refts.Model `json:"model"`
	Enum   bool         `json:"enum,omitempty"` // enumerate every single duplication and every single deletion
	Faults []ChanFault  `json:"faults,omitempty"`
	// header-sequence mode (no Model): a seeded sequence of packet headers over
	// {PID, counter step in {dup,+1,gap}, PUSI, payload / adaptation-only / TEI /
	// discontinuity_indicator}, judged against the reassembly reference.
	Hdrs []HdrPkt `json:"hdrs,omitempty"`
	// HdrEnum: member of the bounded-exhaustive family of header sequences (informational)
	HdrEnum bool `json:"hdr_enum,omitempty"`
	// muxer source (no Model): the stream is what the real Muxer writes for this history
	Period int     `json:"period,omitempty"`
	Ops    []MuxOp `json:"ops,omitempty"`
}

type lossy struct{}

func init() { core.Register(lossy{}) }

func (lossy) Name() string    { return "lossy-channel" }
func (lossy) Props() []string { return []string{"C06"} }
func (lossy) Runs(tier string) int64 {
	if tier == "thorough" {
		return 300000
	}
	return 4000
}

func (lossy) Meta() core.EngineMeta {
	return core.EngineMeta{
		Rule:       "Reference-multiplexed streams (as C02; some with PES payloads made of PES-start-code patterns at packet strides) go through the PacketChannel. A quarter of the runs are header sequences: half of them bounded-exhaustive (every sequence over a 34-letter alphabet of counter step x PUSI x packet kind plus an interleaved stranger, shortest first, behind a unit in progress: complete to length 1 in the quick tier, to length 2 and most of length 3 in the thorough tier), half seeded packet sequences over {PID, counter step in dup/+1/gap, PUSI, payload / adaptation-only / transport-error / discontinuity_indicator} with uniquely tagged payloads, judged against the spec-level reassembly reference (DESIGN App. B: must-deliver / may-be-missing / must-not-appear). Of the rest, even run indices enumerate EVERY single-packet duplication and EVERY single-packet deletion position of their stream (exhaustive per stream); odd indices apply a seeded multi-fault plan (loss bursts < 16 per PID, duplicates of first/middle/last packets, duplicates delayed behind other PIDs' packets, dup+loss). The fault-free run of the same stream is the baseline. evaluations = faulted executions; distinct = abstract fingerprint (fault kind, unit kind, position class first/middle/last/single, packets-per-unit class, cc-wrap, interleaved, outcome class); non-trivial = the fault hit a packet of a unit (always). A third of the streams carry PCRs on later packets of a unit too; duplicates may carry another PCR value than their original (the one difference ISO 13818-1 2.4.3.3 allows), and header-sequence packets (also those with discontinuity_indicator) may carry a PCR.",
		Real:       []string{"astits.Demuxer and everything below it"},
		Stub:       []string{"refts reference multiplexer", "PacketChannel (drop / duplicate)", "SimReader (fault-free)", "spec-level bookkeeping of which unit each packet belongs to"},
		FaultKinds: []string{"muxer-source", "hdr-dup", "hdr-gap", "hdr-disc", "hdr-afonly", "hdr-tei", "hdr-orphan", "dup", "drop", "dup-delayed", "drop-burst", "dup-first", "dup-last", "dup-single-packet-unit", "drop-pusi", "biased-payload"},
		Assumptions: []string{
			"a duplicate is a copy (byte-identical, or differing in its PCR value only) following the original before any other packet of its PID",
			"losses: at most 14 consecutive packets of a PID (15 make the next counter equal the last one seen = a duplicate by definition) and at least one later payload packet of that PID survives (otherwise the counter cannot reveal the gap); PMT PIDs count as affected when PID 0 is",
			"the baseline is the library's own fault-free output; runs whose baseline is not what the stream carries are left to C02",
		},
		Levels: map[string]string{"C06": "fault_enumeration"},
	}
}

func (lossy) Decode(raw json.RawMessage) (any, error) {
	var sc LossyScenario
	err := json.Unmarshal(raw, &sc)
	return &sc, err
}

func (lossy) Generate(r *core.PRNG, tier string, idx int64) any {
	if idx%4 == 3 {
		if idx%8 == 7 {
			// bounded-exhaustive: every sequence over the header alphabet, shortest first, each
			// placed behind a two-packet unit in progress
			return &LossyScenario{Hdrs: enumHeaders(idx / 8), HdrEnum: true}
		}
		return &LossyScenario{Hdrs: genHeaders(r)}
	}
	if idx%8 == 1 {
		sc := &LossyScenario{Period: []int{1, 2, 3, 40}[r.Intn(4)]}
		sc.Ops = GenMuxOps(r, r.Range(4, 14), sc.Period, false, false, false, false)
		// plans are drawn against an upper bound of the packet count; out-of-range faults are ignored
		k := r.Range(1, 4)
		for i := 0; i < k; i++ {
			f := ChanFault{At: r.Intn(40)}
			switch r.Pick(3, 2, 3, 2) {
			case 0:
				f.Kind = "dup"
			case 1:
				f.Kind, f.Gap = "dup", r.Range(1, 6)
			case 2:
				f.Kind, f.N = "drop", 1
			default:
				f.Kind, f.N = "drop", r.Range(2, 14)
			}
			sc.Faults = append(sc.Faults, f)
		}
		sc.Enum = r.Chance(1, 3)
		return sc
	}
	cfg := genStreamCfg(r)
	cfg.Straddle = false
	cfg.UnitsMin, cfg.UnitsMax = 2, r.Range(2, 4)
	cfg.Bias = r.Chance(1, 3)
	cfg.BigPES = r.Chance(1, 5)
	cfg.BigPSI = false
	cfg.MaxPES = []int{200, 500, 900}[r.Intn(3)]
	cfg.MidPCR = r.Chance(1, 3)
	cfg.DiscPUSI = r.Chance(1, 4)
	sc := &LossyScenario{Model: GenModel(r, cfg)}
	if idx%2 == 0 {
		sc.Enum = true
		return sc
	}
	n := 0
	for _, c := range packetCounts(sc.Model) {
		n += c
	}
	k := r.Range(1, 5)
	for i := 0; i < k; i++ {
		f := ChanFault{At: r.Intn(n)}
		switch r.Pick(3, 2, 3, 2) {
		case 0:
			f.Kind, f.Restamp = "dup", r.Bool()
		case 1:
			f.Kind, f.Gap, f.Restamp = "dup", r.Range(1, 6), r.Chance(1, 3)
		case 2:
			f.Kind, f.N = "drop", 1
		default:
			f.Kind, f.N = "drop", r.Range(2, 14)
		}
		sc.Faults = append(sc.Faults, f)
	}
	return sc
}

// applyFaults returns the faulted packet list and, per PID, which stream-local packet
// indexes were dropped. Faults that would leave the scope of the property are ignored.
func applyFaults(b *refts.Built, faults []ChanFault) (pk [][]byte, dropped map[int]bool, dups map[int]int) {
	n := len(b.Packets)
	dropped = map[int]bool{}
	dups = map[int]int{} // original index -> delay
	restamp := map[int]bool{}
	// last payload packet index per PID
	lastOf := map[uint16]int{}
	for i, m := range b.Meta {
		lastOf[m.PID] = i
	}
	nextSame := func(i int) int {
		for j := i + 1; j < n; j++ {
			if b.Meta[j].PID == b.Meta[i].PID {
				return j
			}
		}
		return n
	}
	for _, f := range faults {
		if f.At < 0 || f.At >= n {
			continue
		}
		switch f.Kind {
		case "dup":
			if _, ok := dups[f.At]; !ok && !dropped[f.At] {
				dups[f.At] = f.Gap
				if f.Restamp {
					restamp[f.At] = true
				}
			}
		case "drop":
			cnt := f.N
			if cnt < 1 {
				cnt = 1
			}
			if cnt > 14 {
				cnt = 14
			}
			// consecutive packets of the PID starting at f.At
			var idxs []int
			for j := f.At; j < n && len(idxs) < cnt; j++ {
				if b.Meta[j].PID == b.Meta[f.At].PID {
					idxs = append(idxs, j)
				}
			}
			// a later packet of the PID must survive
			for len(idxs) > 0 && idxs[len(idxs)-1] >= lastOf[b.Meta[f.At].PID] {
				idxs = idxs[:len(idxs)-1]
			}
			for _, j := range idxs {
				dropped[j] = true
				delete(dups, j)
			}
		}
	}
	// Enforce at most 14 consecutive drops per PID (several overlapping bursts). 15 lost packets
	// make the next continuity_counter equal to the last one seen, which ISO 13818-1 defines as
	// a duplicate packet: the counter cannot reveal that gap, so it is outside the property.
	run := map[uint16]int{}
	for i := 0; i < n; i++ {
		p := b.Meta[i].PID
		if dropped[i] {
			run[p]++
			if run[p] > 14 {
				delete(dropped, i)
				run[p] = 0
			}
		} else {
			run[p] = 0
		}
	}
	// the packet after which a delayed duplicate is inserted
	insertAfter := map[int][]int{}
	for i, g := range dups {
		at := i + g
		if ns := nextSame(i); at >= ns {
			at = ns - 1
		}
		insertAfter[at] = append(insertAfter[at], i)
	}
	for i := 0; i < n; i++ {
		if !dropped[i] {
			pk = append(pk, b.Packets[i])
		}
		l := insertAfter[i]
		sort.Ints(l)
		for _, o := range l {
			c := b.Packets[o]
			if restamp[o] {
				c, _ = refts.RestampPCR(c)
			}
			pk = append(pk, c)
		}
	}
	return
}

type datumRec struct {
	full string // deep dump incl. FirstPacket
	key  string // content key
	unit [2]int // stream, unit (-1 unknown)
	d    *astits.DemuxerData
}

func demuxRecs(pk [][]byte, log *core.Log) (per map[uint16][]datumRec, nerr int, ok bool) {
	data := refts.Join(pk)
	res, _ := DemuxData(data, DemuxCfg{PacketSize: 188, Reader: world.ReaderPlan{Kind: "seekable"}}, log, len(pk)*4+16)
	per = map[uint16][]datumRec{}
	for _, r := range res {
		if r.D != nil {
			per[r.D.PID] = append(per[r.D.PID], datumRec{full: core.Dump(r.D), key: contentKey(r.D), unit: [2]int{-1, -1}, d: r.D})
		} else if errClass(r.Err) != "ErrNoMorePackets" {
			nerr++
		}
	}
	ok = len(res) > 0 && errClass(res[len(res)-1].Err) == "ErrNoMorePackets"
	return
}

func (lossy) Execute(scAny any, keepLog bool) *core.Outcome {
	sc := scAny.(*LossyScenario)
	out := core.NewOutcome()
	out.Log = core.NewLog(keepLog)
	if sc.Model == nil && len(sc.Ops) == 0 {
		if sc.HdrEnum {
			out.Probe(fmt.Sprintf("hdr-enum-len-%d", len(sc.Hdrs)-5))
		}
		if len(sc.Hdrs) > 0 {
			judgeHeaders(out, sc.Hdrs)
		}
		return out
	}
	model := sc.Model
	var b *refts.Built
	var want map[uint16][]expDatum
	if len(sc.Ops) > 0 {
		// second source: what the real Muxer wrote (tables between units, adaptation-only
		// packets, its own stuffing layout); units are the PUSI-delimited groups of each PID
		model, b = builtFromMux(sc.Period, sc.Ops)
		if b == nil || len(b.Packets) == 0 {
			out.Probe("mux-output-unusable")
			return out
		}
		out.Fire("muxer-source")
	} else {
		var err error
		b, err = sc.Model.Build()
		if err != nil || len(b.Packets) == 0 {
			out.Probe("model-unbuildable")
			return out
		}
	}
	out.Packets = int64(len(b.Packets))
	base, nerr, ok := demuxRecs(b.Packets, nil)
	if nerr > 0 || !ok {
		out.Probe("baseline-mismatch")
		return out
	}
	if len(sc.Ops) > 0 {
		// the k-th datum of a PID is its k-th unit (one datum per PES / PAT / PMT unit)
		want = map[uint16][]expDatum{}
		nu := map[uint16]int{}
		for _, mt := range b.Meta {
			if mt.Unit >= 0 && mt.Index == 0 {
				nu[mt.PID]++
			}
		}
		for pid, l := range base {
			if len(l) != nu[pid] {
				out.Probe("baseline-mismatch")
				return out
			}
			si := -1
			for i, st := range model.Streams {
				if st.PID == pid {
					si = i
				}
			}
			for k, d := range l {
				want[pid] = append(want[pid], expDatum{key: d.key, stream: si, unit: k})
			}
		}
	} else {
		want = expectedWithUnits(sc.Model, b)
	}
	for _, pid := range pidKeys(want) {
		w := want[pid]
		if len(base[pid]) != len(w) {
			out.Probe("baseline-mismatch")
			return out
		}
		for k := range w {
			if base[pid][k].key != w[k].key {
				out.Probe("baseline-mismatch")
				return out
			}
			base[pid][k].unit = [2]int{w[k].stream, w[k].unit}
		}
	}
	for pid := range base {
		if _, ok := want[pid]; !ok {
			out.Probe("baseline-mismatch")
			return out
		}
	}
	// Muxer source: its PAT/PMT repetitions are identical in content, so they are not
	// attributable (the unique-tag rule); faults are confined to elementary-stream packets there.
	// The reference-model source covers PSI PIDs.
	faultable := func(i int) bool {
		return len(sc.Ops) == 0 || (i >= 0 && i < len(b.Meta) && model.Streams[b.Meta[i].Stream].Kind == "PES")
	}
	one := func(faults []ChanFault) bool {
		if len(sc.Ops) > 0 {
			var fs []ChanFault
			for _, f := range faults {
				if faultable(f.At) {
					fs = append(fs, f)
				}
			}
			faults = fs
		}
		out.Evals++
		pre := len(out.Violations)
		lossyJudge(out, model, b, base, faults, out.Log)
		if len(out.Violations) > pre {
			out.Narrow(pre, &LossyScenario{Model: sc.Model, Period: sc.Period, Ops: sc.Ops, Faults: faults})
			return false
		}
		return true
	}
	if sc.Enum {
		lastOf := map[uint16]int{}
		for i, m := range b.Meta {
			lastOf[m.PID] = i
		}
		for i := range b.Packets {
			if !faultable(i) {
				continue
			}
			one([]ChanFault{{Kind: "dup", At: i}})
			if _, has := refts.RestampPCR(b.Packets[i]); has {
				out.Probe("dup-restamped-pcr")
				one([]ChanFault{{Kind: "dup", At: i, Restamp: true}})
			}
			if i != lastOf[b.Meta[i].PID] {
				one([]ChanFault{{Kind: "drop", At: i, N: 1}})
			}
		}
	} else {
		one(sc.Faults)
	}
	return out
}

func posClass(m refts.PktMeta) string {
	switch {
	case m.Count == 1:
		return "single"
	case m.Index == 0:
		return "first"
	case m.Index == m.Count-1:
		return "last"
	}
	return "middle"
}

// lossyJudge runs one fault plan and applies the C06 oracle.
func lossyJudge(out *core.Outcome, m *refts.Model, b *refts.Built, base map[uint16][]datumRec, faults []ChanFault, log *core.Log) {
	pk, dropped, dups := applyFaults(b, faults)
	if len(dropped) == 0 && len(dups) == 0 {
		return
	}
	log.Add("channel", "faults", fmt.Sprint(faults))
	got, _, ok := demuxRecs(pk, log)
	out.Steps += int64(len(pk))
	// bookkeeping: which PIDs lost packets, which units may be missing
	lossPID := map[uint16]bool{}
	mayMiss := map[[2]int]bool{}
	dupPID := map[uint16]bool{}
	fp := ""
	for i := range b.Meta {
		mt := b.Meta[i]
		if dropped[i] {
			lossPID[mt.PID] = true
			mayMiss[[2]int{mt.Stream, mt.Unit}] = true
			out.Fire("drop")
			if mt.PUSI {
				out.Fire("drop-pusi")
			}
			// previous surviving packet of the PID belongs to the unit preceding the gap
			for j := i - 1; j >= 0; j-- {
				if b.Meta[j].PID == mt.PID && b.Meta[j].Unit >= 0 {
					if !dropped[j] {
						mayMiss[[2]int{b.Meta[j].Stream, b.Meta[j].Unit}] = true
					} else {
						out.Fire("drop-burst")
					}
					break
				}
			}
			fp += "L" + m.Streams[mt.Stream].Kind + posClass(mt)
		}
		if g, ok := dups[i]; ok {
			dupPID[mt.PID] = true
			out.Fire("dup")
			if g > 0 {
				out.Fire("dup-delayed")
			}
			switch posClass(mt) {
			case "first":
				out.Fire("dup-first")
			case "last":
				out.Fire("dup-last")
			case "single":
				out.Fire("dup-single-packet-unit")
			}
			fp += "D" + m.Streams[mt.Stream].Kind + posClass(mt)
			if mt.CC == 15 {
				fp += "w"
			}
		}
	}
	psi := map[uint16]bool{}
	biased := false
	for _, s := range m.Streams {
		if s.Kind != "PES" {
			psi[s.PID] = true
		}
		for _, u := range s.Units {
			if u.Biased {
				biased = true
			}
		}
	}
	if biased && len(dropped) > 0 {
		out.Fire("biased-payload")
	}
	patLoss := lossPID[0]
	if !ok {
		out.Violate("C06", "no-end", "", "ErrNoMorePackets not reached on the faulted stream (faults %v)", faults)
	}
	outcome := "same"
	pids := map[uint16]bool{}
	for p := range base {
		pids[p] = true
	}
	for p := range got {
		pids[p] = true
	}
	var pl []int
	for p := range pids {
		pl = append(pl, int(p))
	}
	sort.Ints(pl)
	for _, pi := range pl {
		pid := uint16(pi)
		bs, gs := base[pid], got[pid]
		affectedByLoss := lossPID[pid] || (patLoss && isPMTPID(m, pid))
		switch {
		case !affectedByLoss && !dupPID[pid]:
			// untouched PID: identical
			if msg := sameSeq(bs, gs); msg != "" {
				out.Violate("C06", "other-pid-affected", kindOf(m, pid), "PID %#x carries no fault but its output changed: %s (faults %v)", pid, msg, faults)
			}
		case !affectedByLoss && dupPID[pid] && !psi[pid]:
			// duplicates only, PES PID: identical
			if msg := sameSeq(bs, gs); msg != "" {
				cls := "dup-altered-output"
				if len(gs) < len(bs) {
					cls = "dup-removed-unit"
				}
				out.Violate("C06", cls, "PES", "PID %#x: a duplicated packet changed the output: %s (faults %v)", pid, msg, faults)
				outcome = "dupbad"
			}
		case !affectedByLoss && dupPID[pid]:
			// duplicates only, PSI PID: baseline is a subsequence, extras equal a neighbour
			j := 0
			for k, g := range gs {
				if j < len(bs) && g.full == bs[j].full {
					j++
					continue
				}
				// an extra datum must be a repetition of data the stream carries on this PID
				if !hasKey(bs, g.key) {
					out.Violate("C06", "dup-altered-output", "PSI", "PID %#x: datum %d delivered after a duplicate equals no datum of the duplicate-free output: %s (faults %v)", pid, k, core.Short(g.key, 300), faults)
				} else {
					outcome = "dup-repeat"
				}
			}
			if j < len(bs) {
				out.Violate("C06", "dup-removed-unit", "PSI", "PID %#x: baseline datum %d is missing after a duplicate: %s (faults %v)", pid, j, core.Short(bs[j].key, 300), faults)
			}
		default:
			// loss (possibly with duplicates): delivered data are a subsequence of the baseline,
			// missing units are limited to the permitted set
			j := 0
			for k, g := range gs {
				found := -1
				for x := j; x < len(bs); x++ {
					if bs[x].full == g.full || (dupPID[pid] && psi[pid] && bs[x].key == g.key) {
						found = x
						break
					}
				}
				if found < 0 {
					if psi[pid] && dupPID[pid] && hasKey(bs, g.key) {
						continue // repeated PSI datum after a duplicate
					}
					sig := "pusi=1"
					if g.d.FirstPacket != nil && !g.d.FirstPacket.Header.PayloadUnitStartIndicator {
						// the recorded finding K03 is exactly: a tail fragment that begins with the PES
						// start code 00 00 01 is taken for a PES packet
						sig = "first-packet-pusi=0/no-start-code"
						for _, raw := range pk {
							p, err := refts.DecodePacket(raw)
							if err == nil && p.PID == pid && !p.PUSI && p.HasPayload() && p.CC == g.d.FirstPacket.Header.ContinuityCounter &&
								len(p.Payload) >= 3 && p.Payload[0] == 0 && p.Payload[1] == 0 && p.Payload[2] == 1 {
								sig = "first-packet-pusi=0"
							}
						}
					}
					cls := "foreign-unit"
					for x := 0; x < len(bs); x++ {
						if bs[x].full == g.full {
							cls = "reordered-unit"
						}
					}
					out.Violate("C06", cls, sig, "PID %#x: datum %d delivered after packet loss equals no unit of the loss-free output: %s (faults %v)", pid, k, core.Short(g.key, 300), faults)
					outcome = "foreign"
					continue
				}
				for x := j; x < found; x++ {
					if !mayMiss[bs[x].unit] && !(patLoss && isPMTPID(m, pid)) {
						out.Violate("C06", "unit-lost", kindOf(m, pid), "PID %#x: unit %v lost although it lost no packet and does not precede a gap: %s (faults %v)", pid, bs[x].unit, core.Short(bs[x].key, 200), faults)
					}
				}
				j = found + 1
			}
			for x := j; x < len(bs); x++ {
				if !mayMiss[bs[x].unit] && !(patLoss && isPMTPID(m, pid)) {
					out.Violate("C06", "unit-lost", kindOf(m, pid)+"-tail", "PID %#x: unit %v lost although it lost no packet and does not precede a gap: %s (faults %v)", pid, bs[x].unit, core.Short(bs[x].key, 200), faults)
				}
			}
			if len(gs) < len(bs) && outcome == "same" {
				outcome = "lost"
			}
		}
	}
	out.FP(fmt.Sprintf("%x", fnvStr(fp+outcome+fmt.Sprint(len(m.Streams) > 1))))
}

func hasKey(l []datumRec, key string) bool {
	for _, x := range l {
		if x.key == key {
			return true
		}
	}
	return false
}

func isPMTPID(m *refts.Model, pid uint16) bool {
	for _, s := range m.Streams {
		if s.PID == pid {
			return s.Kind == "PMT"
		}
	}
	return false
}

func kindOf(m *refts.Model, pid uint16) string {
	for _, s := range m.Streams {
		if s.PID == pid {
			return s.Kind
		}
	}
	return "?"
}

func sameSeq(a, b []datumRec) string {
	if len(a) != len(b) {
		return fmt.Sprintf("%d data instead of %d", len(b), len(a))
	}
	for i := range a {
		if a[i].full != b[i].full {
			return fmt.Sprintf("datum %d differs: %s vs %s", i, core.Short(b[i].full, 200), core.Short(a[i].full, 200))
		}
	}
	return ""
}

func (lossy) Shrink(scAny any) []any {
	sc := scAny.(*LossyScenario)
	var out []any
	if sc.Enum {
		return nil
	}
	if sc.Model == nil {
		for n := len(sc.Hdrs) / 2; n >= 1; n /= 2 {
			for a := 0; a+n <= len(sc.Hdrs); a += n {
				c := append(append([]HdrPkt{}, sc.Hdrs[:a]...), sc.Hdrs[a+n:]...)
				if len(c) > 0 {
					out = append(out, &LossyScenario{Hdrs: c})
				}
			}
		}
		for i, h := range sc.Hdrs {
			if h.Kind != "payload" || h.CC != "+1" {
				c := append([]HdrPkt{}, sc.Hdrs...)
				c[i].Kind, c[i].CC = "payload", "+1"
				out = append(out, &LossyScenario{Hdrs: c})
			}
		}
		return out
	}
	for i := range sc.Faults {
		c := *sc
		c.Faults = append(append([]ChanFault{}, sc.Faults[:i]...), sc.Faults[i+1:]...)
		if len(c.Faults) > 0 {
			out = append(out, &c)
		}
	}
	for i, f := range sc.Faults {
		if f.N > 1 || f.Gap > 0 {
			c := *sc
			c.Faults = append([]ChanFault{}, sc.Faults...)
			c.Faults[i].N, c.Faults[i].Gap = 1, 0
			out = append(out, &c)
		}
	}
	// Model shrinks change packet indexes: keep only those under which the fault list still
	// selects packets (the predicate of the minimiser re-checks the violation anyway).
	b0, err := sc.Model.Build()
	if err != nil {
		return out
	}
	for _, m := range shrinkModel(sc.Model) {
		b1, err := m.Build()
		if err != nil || len(b1.Packets) == 0 {
			continue
		}
		// remap faults by (pid, stream-local packet ordinal) where possible
		var fs []ChanFault
		okAll := true
		for _, f := range sc.Faults {
			if f.At >= len(b0.Meta) {
				okAll = false
				break
			}
			mt := b0.Meta[f.At]
			ord := 0
			for j := 0; j < f.At; j++ {
				if b0.Meta[j].PID == mt.PID {
					ord++
				}
			}
			at := -1
			c := 0
			for j, x := range b1.Meta {
				if x.PID == mt.PID {
					if c == ord {
						at = j
						break
					}
					c++
				}
			}
			if at < 0 {
				okAll = false
				break
			}
			nf := f
			nf.At = at
			fs = append(fs, nf)
		}
		if okAll {
			out = append(out, &LossyScenario{Model: m, Faults: fs})
		}
	}
	return out
}

// ---- header-sequence mode: random packet-header sequences judged by the reassembly model ----

// HdrPkt is one packet of a header-sequence scenario.
type HdrPkt struct {
	S    int    `json:"s"`             // PID index 0..2
	CC   string `json:"cc"`            // "+1" | "dup" | "gap"
	Gap  int    `json:"gap,omitempty"` // gap: counter advance (2..15)
	PUSI bool   `json:"pusi,omitempty"`
	Kind string `json:"kind"`          // payload | afonly | tei | disc
	PCR  bool   `json:"pcr,omitempty"` // payload / disc packets: the adaptation field also carries a PCR
}

var hdrPIDs = []uint16{0x100, 0x101, 0x1abc}

// hdrAlphabet: counter step {+1, dup, gap 2, gap 15} x PUSI x {payload, afonly, tei, disc} on
// PID 0, plus a plain packet of a second PID (an interleaved stranger).
var hdrAlphabet = func() []HdrPkt {
	var a []HdrPkt
	for _, cc := range []HdrPkt{{CC: "+1"}, {CC: "dup"}, {CC: "gap", Gap: 2}, {CC: "gap", Gap: 15}} {
		for _, pusi := range []bool{false, true} {
			for _, k := range []string{"payload", "afonly", "tei", "disc"} {
				h := cc
				h.PUSI, h.Kind = pusi, k
				a = append(a, h)
			}
		}
	}
	a = append(a, HdrPkt{S: 1, CC: "+1", Kind: "payload"}, HdrPkt{S: 1, CC: "+1", Kind: "payload", PUSI: true})
	return a
}()

// enumHeaders returns the k-th sequence over hdrAlphabet (length 1 first), behind a prefix that
// leaves a unit in progress and followed by a closing unit start.
func enumHeaders(k int64) []HdrPkt {
	n := int64(len(hdrAlphabet))
	length := 1
	for pow := n; k >= pow; pow *= n {
		k -= pow
		length++
		if length > 6 {
			break
		}
	}
	out := []HdrPkt{{CC: "+1", Kind: "payload", PUSI: true}, {CC: "+1", Kind: "payload"}}
	digits := make([]int, length)
	for i := length - 1; i >= 0; i-- {
		digits[i] = int(k % n)
		k /= n
	}
	for _, d := range digits {
		out = append(out, hdrAlphabet[d])
	}
	return append(out, HdrPkt{CC: "+1", Kind: "payload"}, HdrPkt{CC: "+1", Kind: "payload", PUSI: true}, HdrPkt{CC: "+1", Kind: "payload"})
}

func genHeaders(r *core.PRNG) []HdrPkt {
	n := r.Range(4, 60)
	np := r.Range(1, 3)
	var out []HdrPkt
	for i := 0; i < n; i++ {
		h := HdrPkt{S: r.Intn(np), CC: "+1", Kind: "payload"}
		switch r.Pick(12, 3, 3) {
		case 1:
			h.CC = "dup"
		case 2:
			h.CC, h.Gap = "gap", r.Range(2, 15)
		}
		h.PUSI = r.Chance(1, 3)
		switch r.Pick(14, 2, 2, 1) {
		case 1:
			h.Kind = "afonly"
		case 2:
			h.Kind = "tei"
		case 3:
			h.Kind = "disc"
		}
		if h.Kind == "disc" || h.Kind == "payload" {
			h.PCR = r.Chance(1, 3)
		}
		out = append(out, h)
	}
	return out
}

// hdrUnit is a unit the reference reassembly model expects.
type hdrUnit struct {
	data    []byte
	mayMiss bool
}

// buildHeaders renders the packets and runs the reassembly reference (DESIGN Appendix B).
func buildHeaders(hs []HdrPkt) (pk [][]byte, want map[uint16][]hdrUnit, stats map[string]int) {
	want = map[uint16][]hdrUnit{}
	stats = map[string]int{}
	type st struct {
		cc       int // counter of the last visible packet, -1 none
		last     []byte
		cur      []byte // unit being assembled (payload after the PES header), nil none
		curValid bool
	}
	sts := map[int]*st{}
	pesHdr := []byte{0, 0, 1, 0xe0, 0, 0, 0x80, 0, 0}
	for gi, h := range hs {
		if h.S < 0 || h.S >= len(hdrPIDs) {
			continue
		}
		s := sts[h.S]
		if s == nil {
			s = &st{cc: -1}
			sts[h.S] = s
		}
		pid := hdrPIDs[h.S]
		switch h.Kind {
		case "afonly":
			cc := s.cc
			if cc < 0 {
				cc = 0
			}
			raw, _ := refts.EncodePacket(&refts.Pkt{PID: pid, AFC: 2, CC: uint8(cc), AF: refts.StuffAF(&refts.AF{RAI: true}, 184)})
			pk = append(pk, raw)
			stats["afonly"]++
			continue
		case "tei":
			raw := make([]byte, 188)
			for i := range raw {
				raw[i] = PayloadByte(7000+gi, i)
			}
			raw[0], raw[1], raw[2], raw[3] = 0x47, 0x80|byte(pid>>8&0x1f), byte(pid), 0x10|byte(gi&0xf)
			pk = append(pk, raw)
			stats["tei"]++
			continue
		}
		// visible packet
		if h.CC == "dup" && s.cc >= 0 && s.last != nil {
			pk = append(pk, s.last)
			stats["dup"]++
			continue // ignored by the model
		}
		gap := false
		cc := 0
		switch {
		case s.cc < 0:
			cc = gi & 0xf
		case h.CC == "gap":
			g := h.Gap
			if g < 2 || g > 15 {
				g = 2
			}
			cc = (s.cc + g) & 0xf
			gap = true
			stats["gap"]++
		default:
			cc = (s.cc + 1) & 0xf
		}
		p := &refts.Pkt{PID: pid, PUSI: h.PUSI, AFC: 1, CC: uint8(cc)}
		body := make([]byte, 0, 184)
		if h.PUSI {
			body = append(body, pesHdr...)
		}
		size := 184
		if h.Kind == "disc" {
			p.AFC = 3
			p.AF = &refts.AF{Disc: true}
			size = 184 - 2
			if s.cc >= 0 {
				gap = true
			}
			stats["disc"]++
		}
		if h.PCR && (h.Kind == "disc" || h.Kind == "payload") {
			if p.AF == nil {
				p.AFC = 3
				p.AF = &refts.AF{}
			}
			p.AF.PCR = &refts.Clock{Base: uint64(1000 + 300*gi), Ext: uint16(gi % 300)}
			size = 184 - 8
			stats["pcr"]++
		}
		for len(body) < size {
			body = append(body, PayloadByte(1000+gi, len(body)))
		}
		p.Payload = body
		raw, err := refts.EncodePacket(p)
		if err != nil {
			continue
		}
		pk = append(pk, raw)
		s.cc, s.last = cc, raw
		// reassembly reference
		if gap {
			if h.PUSI && s.cur != nil && s.curValid {
				// the completed unit may or may not survive a gap seen on the next unit start
				want[pid] = append(want[pid], hdrUnit{data: s.cur, mayMiss: true})
			}
			s.cur, s.curValid = nil, false
			stats["abandon"]++
		}
		if h.PUSI {
			if s.cur != nil && s.curValid {
				want[pid] = append(want[pid], hdrUnit{data: s.cur})
			}
			s.cur = append([]byte{}, body[len(pesHdr):]...)
			s.curValid = true
		} else if s.cur != nil && s.curValid {
			s.cur = append(s.cur, body...)
		} else {
			stats["orphan"]++
		}
	}
	for si, s := range sts {
		if s.cur != nil && s.curValid {
			want[hdrPIDs[si]] = append(want[hdrPIDs[si]], hdrUnit{data: s.cur})
		}
	}
	return
}

func judgeHeaders(out *core.Outcome, hs []HdrPkt) {
	out.Evals++
	pk, want, stats := buildHeaders(hs)
	if len(pk) == 0 {
		return
	}
	for k, v := range stats {
		if v > 0 {
			out.Fire("hdr-" + k)
		}
	}
	out.Packets += int64(len(pk))
	res, _ := DemuxData(refts.Join(pk), DemuxCfg{PacketSize: 188, Reader: world.ReaderPlan{Kind: "seekable"}}, out.Log, len(pk)*2+16)
	got := map[uint16][][]byte{}
	for _, r := range res {
		if r.D != nil && r.D.PES != nil {
			got[r.D.PID] = append(got[r.D.PID], r.D.PES.Data)
		} else if r.D != nil {
			out.Violate("C06", "hdrseq-foreign", "non-pes", "PID %#x delivered a %s from a stream of PES packets", r.D.PID, dataKind(r.D))
		}
	}
	for _, pid := range hdrPIDs {
		w, g := want[pid], got[pid]
		j := 0
		for k, d := range g {
			found := -1
			for x := j; x < len(w); x++ {
				if bytes.Equal(w[x].data, d) {
					found = x
					break
				}
			}
			if found < 0 {
				cls, sig := "hdrseq-foreign", "unknown"
				// is it a splice (prefix of one unit followed by other bytes) or a truncated unit?
				for _, u := range w {
					n := commonPrefix(u.data, d)
					if n >= 175 && n < len(d) {
						cls, sig = "hdrseq-splice", "across-gap"
					} else if n == len(d) && n > 0 {
						cls, sig = "hdrseq-truncated", "prefix-of-unit"
					}
				}
				out.Violate("C06", cls, sig, "PID %#x: delivered datum %d (%d bytes) is not a unit of the reassembly reference (sequence %s)", pid, k, len(d), core.Short(fmt.Sprint(hs), 400))
				break
			}
			for x := j; x < found; x++ {
				if !w[x].mayMiss {
					out.Violate("C06", "hdrseq-unit-lost", "", "PID %#x: unit %d of the reassembly reference (%d bytes) was not delivered although no gap touches it", pid, x, len(w[x].data))
				}
			}
			j = found + 1
		}
		for x := j; x < len(w); x++ {
			if !w[x].mayMiss {
				out.Violate("C06", "hdrseq-unit-lost", "tail", "PID %#x: unit %d of the reassembly reference (%d bytes) was not delivered although no gap touches it", pid, x, len(w[x].data))
			}
		}
	}
	fp := ""
	for _, h := range hs {
		if h.Kind != "payload" || h.CC != "+1" {
			fp += h.Kind[:1] + h.CC[:1]
			if h.PUSI {
				fp += "P"
			}
		}
	}
	if len(fp) > 24 {
		fp = fp[:24]
	}
	out.FP("H" + fp)
}

func commonPrefix(a, b []byte) int {
	n := 0
	for n < len(a) && n < len(b) && a[n] == b[n] {
		n++
	}
	return n
}

// builtFromMux runs a Muxer history and describes its output packet by packet: units are the
// PUSI-delimited groups of payload packets of each PID; adaptation-only packets belong to no
// unit (Unit -1).
func builtFromMux(period int, ops []MuxOp) (*refts.Model, *refts.Built) {
	o := core.NewOutcome()
	if period < 1 {
		period = 1
	}
	ms := NewMuxSim(period, world.WriterPlan{}, o, false)
	ms.Run(ops)
	if len(ms.W.Buf) == 0 || len(ms.W.Buf)%188 != 0 {
		return nil, nil
	}
	pk, _ := refts.SplitPackets(ms.W.Buf)
	m := &refts.Model{}
	b := &refts.Built{}
	sidx := map[uint16]int{}
	type st struct{ unit, first int }
	cur := map[uint16]*st{}
	for i, raw := range pk {
		p, err := refts.DecodePacket(raw)
		if err != nil {
			return nil, nil
		}
		si, ok := sidx[p.PID]
		if !ok {
			kind := "PES"
			if p.PID == 0 {
				kind = "PAT"
			} else if ms.pmtPID >= 0 && int(p.PID) == ms.pmtPID {
				kind = "PMT"
			}
			si = len(m.Streams)
			sidx[p.PID] = si
			m.Streams = append(m.Streams, refts.Stream{PID: p.PID, Kind: kind})
		}
		mt := refts.PktMeta{Stream: si, Unit: -1, PID: p.PID, CC: p.CC, PUSI: p.PUSI, Count: 1}
		if p.HasPayload() {
			c := cur[p.PID]
			if p.PUSI || c == nil {
				n := 0
				if c != nil {
					n = c.unit + 1
				}
				c = &st{unit: n, first: i}
				cur[p.PID] = c
			}
			mt.Unit = c.unit
			mt.Index = i // provisional; fixed below
		}
		b.Packets = append(b.Packets, raw)
		b.Meta = append(b.Meta, mt)
	}
	// Index / Count within each unit
	type key struct {
		pid  uint16
		unit int
	}
	counts := map[key]int{}
	for _, mt := range b.Meta {
		if mt.Unit >= 0 {
			counts[key{mt.PID, mt.Unit}]++
		}
	}
	seen := map[key]int{}
	for i := range b.Meta {
		mt := &b.Meta[i]
		if mt.Unit < 0 {
			mt.Index, mt.Count = 0, 1
			continue
		}
		k := key{mt.PID, mt.Unit}
		mt.Index, mt.Count = seen[k], counts[k]
		seen[k]++
	}
	return m, b
}
