package props

import (
	"encoding/json"
	"fmt"
	"sort"

	"verif/sim/core"
	"verif/sim/refts"
	"verif/sim/world"

	astits "github.com/asticode/go-astits"
)

// ChanFault is one fault of the packet channel. At indexes the fault-free multiplex.
type ChanFault struct {
	Kind string `json:"kind"`          // dup | drop
	At   int    `json:"at"`            // packet index in the fault-free stream
	Gap  int    `json:"gap,omitempty"` // dup: number of following packets the copy is delayed by (never past the next packet of its PID)
	N    int    `json:"n,omitempty"`   // drop: number of consecutive packets of that PID to drop (default 1)
}

// LossyScenario: a reference stream carried through a lossy/duplicating packet channel
// (engine `lossy-channel`, C06).
type LossyScenario struct {
	Model  *refts.Model `json:"model"`
	Enum   bool         `json:"enum,omitempty"` // enumerate every single duplication and every single deletion
	Faults []ChanFault  `json:"faults,omitempty"`
}

type lossy struct{}

func init() { core.Register(lossy{}) }

func (lossy) Name() string    { return "lossy-channel" }
func (lossy) Props() []string { return []string{"C06"} }
func (lossy) Runs(tier string) int64 {
	if tier == "thorough" {
		return 300000
	}
	return 1500
}

func (lossy) Meta() core.EngineMeta {
	return core.EngineMeta{
		Rule:       "Reference-multiplexed streams (as C02; some with PES payloads made of PES-start-code patterns at packet strides) go through the PacketChannel. Even run indices enumerate EVERY single-packet duplication and EVERY single-packet deletion position of their stream (exhaustive per stream); odd indices apply a seeded multi-fault plan (loss bursts < 16 per PID, duplicates of first/middle/last packets, duplicates delayed behind other PIDs' packets, dup+loss). The fault-free run of the same stream is the baseline. evaluations = faulted executions; distinct = abstract fingerprint (fault kind, unit kind, position class first/middle/last/single, packets-per-unit class, cc-wrap, interleaved, outcome class); non-trivial = the fault hit a packet of a unit (always).",
		Real:       []string{"astits.Demuxer and everything below it"},
		Stub:       []string{"refts reference multiplexer", "PacketChannel (drop / duplicate)", "SimReader (fault-free)", "spec-level bookkeeping of which unit each packet belongs to"},
		FaultKinds: []string{"dup", "drop", "dup-delayed", "drop-burst", "dup-first", "dup-last", "dup-single-packet-unit", "drop-pusi", "biased-payload"},
		Assumptions: []string{
			"a duplicate is a byte-identical copy following the original before any other packet of its PID",
			"losses: at most 14 consecutive packets of a PID (15 make the next counter equal the last one seen = a duplicate by definition) and at least one later payload packet of that PID survives (otherwise the counter cannot reveal the gap); PMT PIDs count as affected when PID 0 is",
			"the baseline is the library's own fault-free output; runs whose baseline is not what the stream carries are left to C02",
		},
		Levels: map[string]string{"C06": "fault_enumeration"},
	}
}

func (lossy) Decode(raw json.RawMessage) (any, error) {
	var sc LossyScenario
	err := json.Unmarshal(raw, &sc)
	return &sc, err
}

func (lossy) Generate(r *core.PRNG, tier string, idx int64) any {
	cfg := genStreamCfg(r)
	cfg.Straddle = false
	cfg.UnitsMin, cfg.UnitsMax = 2, r.Range(2, 4)
	cfg.Bias = r.Chance(1, 3)
	cfg.BigPES = r.Chance(1, 5)
	cfg.BigPSI = false
	cfg.MaxPES = []int{200, 500, 900}[r.Intn(3)]
	sc := &LossyScenario{Model: GenModel(r, cfg)}
	if idx%2 == 0 {
		sc.Enum = true
		return sc
	}
	n := 0
	for _, c := range packetCounts(sc.Model) {
		n += c
	}
	k := r.Range(1, 5)
	for i := 0; i < k; i++ {
		f := ChanFault{At: r.Intn(n)}
		switch r.Pick(3, 2, 3, 2) {
		case 0:
			f.Kind = "dup"
		case 1:
			f.Kind, f.Gap = "dup", r.Range(1, 6)
		case 2:
			f.Kind, f.N = "drop", 1
		default:
			f.Kind, f.N = "drop", r.Range(2, 14)
		}
		sc.Faults = append(sc.Faults, f)
	}
	return sc
}

// applyFaults returns the faulted packet list and, per PID, which stream-local packet
// indexes were dropped. Faults that would leave the scope of the property are ignored.
func applyFaults(b *refts.Built, faults []ChanFault) (pk [][]byte, dropped map[int]bool, dups map[int]int) {
	n := len(b.Packets)
	dropped = map[int]bool{}
	dups = map[int]int{} // original index -> delay
	// last payload packet index per PID
	lastOf := map[uint16]int{}
	for i, m := range b.Meta {
		lastOf[m.PID] = i
	}
	nextSame := func(i int) int {
		for j := i + 1; j < n; j++ {
			if b.Meta[j].PID == b.Meta[i].PID {
				return j
			}
		}
		return n
	}
	for _, f := range faults {
		if f.At < 0 || f.At >= n {
			continue
		}
		switch f.Kind {
		case "dup":
			if _, ok := dups[f.At]; !ok && !dropped[f.At] {
				dups[f.At] = f.Gap
			}
		case "drop":
			cnt := f.N
			if cnt < 1 {
				cnt = 1
			}
			if cnt > 14 {
				cnt = 14
			}
			// consecutive packets of the PID starting at f.At
			var idxs []int
			for j := f.At; j < n && len(idxs) < cnt; j++ {
				if b.Meta[j].PID == b.Meta[f.At].PID {
					idxs = append(idxs, j)
				}
			}
			// a later packet of the PID must survive
			for len(idxs) > 0 && idxs[len(idxs)-1] >= lastOf[b.Meta[f.At].PID] {
				idxs = idxs[:len(idxs)-1]
			}
			for _, j := range idxs {
				dropped[j] = true
				delete(dups, j)
			}
		}
	}
	// Enforce at most 14 consecutive drops per PID (several overlapping bursts). 15 lost packets
	// make the next continuity_counter equal to the last one seen, which ISO 13818-1 defines as
	// a duplicate packet: the counter cannot reveal that gap, so it is outside the property.
	run := map[uint16]int{}
	for i := 0; i < n; i++ {
		p := b.Meta[i].PID
		if dropped[i] {
			run[p]++
			if run[p] > 14 {
				delete(dropped, i)
				run[p] = 0
			}
		} else {
			run[p] = 0
		}
	}
	// the packet after which a delayed duplicate is inserted
	insertAfter := map[int][]int{}
	for i, g := range dups {
		at := i + g
		if ns := nextSame(i); at >= ns {
			at = ns - 1
		}
		insertAfter[at] = append(insertAfter[at], i)
	}
	for i := 0; i < n; i++ {
		if !dropped[i] {
			pk = append(pk, b.Packets[i])
		}
		l := insertAfter[i]
		sort.Ints(l)
		for _, o := range l {
			pk = append(pk, b.Packets[o])
		}
	}
	return
}

type datumRec struct {
	full string // deep dump incl. FirstPacket
	key  string // content key
	unit [2]int // stream, unit (-1 unknown)
	d    *astits.DemuxerData
}

func demuxRecs(pk [][]byte, log *core.Log) (per map[uint16][]datumRec, nerr int, ok bool) {
	data := refts.Join(pk)
	res, _ := DemuxData(data, DemuxCfg{PacketSize: 188, Reader: world.ReaderPlan{Kind: "seekable"}}, log, len(pk)*4+16)
	per = map[uint16][]datumRec{}
	for _, r := range res {
		if r.D != nil {
			per[r.D.PID] = append(per[r.D.PID], datumRec{full: core.Dump(r.D), key: contentKey(r.D), unit: [2]int{-1, -1}, d: r.D})
		} else if errClass(r.Err) != "ErrNoMorePackets" {
			nerr++
		}
	}
	ok = len(res) > 0 && errClass(res[len(res)-1].Err) == "ErrNoMorePackets"
	return
}

func (lossy) Execute(scAny any, keepLog bool) *core.Outcome {
	sc := scAny.(*LossyScenario)
	out := core.NewOutcome()
	out.Log = core.NewLog(keepLog)
	b, err := sc.Model.Build()
	if err != nil || len(b.Packets) == 0 {
		out.Probe("model-unbuildable")
		return out
	}
	out.Packets = int64(len(b.Packets))
	base, nerr, ok := demuxRecs(b.Packets, nil)
	want := expectedWithUnits(sc.Model, b)
	if nerr > 0 || !ok {
		out.Probe("baseline-mismatch")
		return out
	}
	for _, pid := range pidKeys(want) {
		w := want[pid]
		if len(base[pid]) != len(w) {
			out.Probe("baseline-mismatch")
			return out
		}
		for k := range w {
			if base[pid][k].key != w[k].key {
				out.Probe("baseline-mismatch")
				return out
			}
			base[pid][k].unit = [2]int{w[k].stream, w[k].unit}
		}
	}
	for pid := range base {
		if _, ok := want[pid]; !ok {
			out.Probe("baseline-mismatch")
			return out
		}
	}
	one := func(faults []ChanFault) bool {
		out.Evals++
		pre := len(out.Violations)
		lossyJudge(out, sc.Model, b, base, faults, out.Log)
		if len(out.Violations) > pre {
			out.Narrow(pre, &LossyScenario{Model: sc.Model, Faults: faults})
			return false
		}
		return true
	}
	if sc.Enum {
		lastOf := map[uint16]int{}
		for i, m := range b.Meta {
			lastOf[m.PID] = i
		}
		for i := range b.Packets {
			one([]ChanFault{{Kind: "dup", At: i}})
			if i != lastOf[b.Meta[i].PID] {
				one([]ChanFault{{Kind: "drop", At: i, N: 1}})
			}
		}
	} else {
		one(sc.Faults)
	}
	return out
}

func posClass(m refts.PktMeta) string {
	switch {
	case m.Count == 1:
		return "single"
	case m.Index == 0:
		return "first"
	case m.Index == m.Count-1:
		return "last"
	}
	return "middle"
}

// lossyJudge runs one fault plan and applies the C06 oracle.
func lossyJudge(out *core.Outcome, m *refts.Model, b *refts.Built, base map[uint16][]datumRec, faults []ChanFault, log *core.Log) {
	pk, dropped, dups := applyFaults(b, faults)
	if len(dropped) == 0 && len(dups) == 0 {
		return
	}
	log.Add("channel", "faults", fmt.Sprint(faults))
	got, _, ok := demuxRecs(pk, log)
	out.Steps += int64(len(pk))
	// bookkeeping: which PIDs lost packets, which units may be missing
	lossPID := map[uint16]bool{}
	mayMiss := map[[2]int]bool{}
	dupPID := map[uint16]bool{}
	fp := ""
	for i := range b.Meta {
		mt := b.Meta[i]
		if dropped[i] {
			lossPID[mt.PID] = true
			mayMiss[[2]int{mt.Stream, mt.Unit}] = true
			out.Fire("drop")
			if mt.PUSI {
				out.Fire("drop-pusi")
			}
			// previous surviving packet of the PID belongs to the unit preceding the gap
			for j := i - 1; j >= 0; j-- {
				if b.Meta[j].PID == mt.PID {
					if !dropped[j] {
						mayMiss[[2]int{b.Meta[j].Stream, b.Meta[j].Unit}] = true
					} else {
						out.Fire("drop-burst")
					}
					break
				}
			}
			fp += "L" + m.Streams[mt.Stream].Kind + posClass(mt)
		}
		if g, ok := dups[i]; ok {
			dupPID[mt.PID] = true
			out.Fire("dup")
			if g > 0 {
				out.Fire("dup-delayed")
			}
			switch posClass(mt) {
			case "first":
				out.Fire("dup-first")
			case "last":
				out.Fire("dup-last")
			case "single":
				out.Fire("dup-single-packet-unit")
			}
			fp += "D" + m.Streams[mt.Stream].Kind + posClass(mt)
			if mt.CC == 15 {
				fp += "w"
			}
		}
	}
	psi := map[uint16]bool{}
	biased := false
	for _, s := range m.Streams {
		if s.Kind != "PES" {
			psi[s.PID] = true
		}
		for _, u := range s.Units {
			if u.Biased {
				biased = true
			}
		}
	}
	if biased && len(dropped) > 0 {
		out.Fire("biased-payload")
	}
	patLoss := lossPID[0]
	if !ok {
		out.Violate("C06", "no-end", "", "ErrNoMorePackets not reached on the faulted stream (faults %v)", faults)
	}
	outcome := "same"
	pids := map[uint16]bool{}
	for p := range base {
		pids[p] = true
	}
	for p := range got {
		pids[p] = true
	}
	var pl []int
	for p := range pids {
		pl = append(pl, int(p))
	}
	sort.Ints(pl)
	for _, pi := range pl {
		pid := uint16(pi)
		bs, gs := base[pid], got[pid]
		affectedByLoss := lossPID[pid] || (patLoss && isPMTPID(m, pid))
		switch {
		case !affectedByLoss && !dupPID[pid]:
			// untouched PID: identical
			if msg := sameSeq(bs, gs); msg != "" {
				out.Violate("C06", "other-pid-affected", kindOf(m, pid), "PID %#x carries no fault but its output changed: %s (faults %v)", pid, msg, faults)
			}
		case !affectedByLoss && dupPID[pid] && !psi[pid]:
			// duplicates only, PES PID: identical
			if msg := sameSeq(bs, gs); msg != "" {
				cls := "dup-altered-output"
				if len(gs) < len(bs) {
					cls = "dup-removed-unit"
				}
				out.Violate("C06", cls, "PES", "PID %#x: a duplicated packet changed the output: %s (faults %v)", pid, msg, faults)
				outcome = "dupbad"
			}
		case !affectedByLoss && dupPID[pid]:
			// duplicates only, PSI PID: baseline is a subsequence, extras equal a neighbour
			j := 0
			for k, g := range gs {
				if j < len(bs) && g.full == bs[j].full {
					j++
					continue
				}
				// an extra datum must be a repetition of data the stream carries on this PID
				if !hasKey(bs, g.key) {
					out.Violate("C06", "dup-altered-output", "PSI", "PID %#x: datum %d delivered after a duplicate equals no datum of the duplicate-free output: %s (faults %v)", pid, k, core.Short(g.key, 300), faults)
				} else {
					outcome = "dup-repeat"
				}
			}
			if j < len(bs) {
				out.Violate("C06", "dup-removed-unit", "PSI", "PID %#x: baseline datum %d is missing after a duplicate: %s (faults %v)", pid, j, core.Short(bs[j].key, 300), faults)
			}
		default:
			// loss (possibly with duplicates): delivered data are a subsequence of the baseline,
			// missing units are limited to the permitted set
			j := 0
			for k, g := range gs {
				found := -1
				for x := j; x < len(bs); x++ {
					if bs[x].full == g.full || (dupPID[pid] && psi[pid] && bs[x].key == g.key) {
						found = x
						break
					}
				}
				if found < 0 {
					if psi[pid] && dupPID[pid] && hasKey(bs, g.key) {
						continue // repeated PSI datum after a duplicate
					}
					sig := "pusi=1"
					if g.d.FirstPacket != nil && !g.d.FirstPacket.Header.PayloadUnitStartIndicator {
						sig = "first-packet-pusi=0"
					}
					cls := "foreign-unit"
					for x := 0; x < len(bs); x++ {
						if bs[x].full == g.full {
							cls = "reordered-unit"
						}
					}
					out.Violate("C06", cls, sig, "PID %#x: datum %d delivered after packet loss equals no unit of the loss-free output: %s (faults %v)", pid, k, core.Short(g.key, 300), faults)
					outcome = "foreign"
					continue
				}
				for x := j; x < found; x++ {
					if !mayMiss[bs[x].unit] && !(patLoss && isPMTPID(m, pid)) {
						out.Violate("C06", "unit-lost", kindOf(m, pid), "PID %#x: unit %v lost although it lost no packet and does not precede a gap: %s (faults %v)", pid, bs[x].unit, core.Short(bs[x].key, 200), faults)
					}
				}
				j = found + 1
			}
			for x := j; x < len(bs); x++ {
				if !mayMiss[bs[x].unit] && !(patLoss && isPMTPID(m, pid)) {
					out.Violate("C06", "unit-lost", kindOf(m, pid)+"-tail", "PID %#x: unit %v lost although it lost no packet and does not precede a gap: %s (faults %v)", pid, bs[x].unit, core.Short(bs[x].key, 200), faults)
				}
			}
			if len(gs) < len(bs) && outcome == "same" {
				outcome = "lost"
			}
		}
	}
	out.FP(fmt.Sprintf("%x", fnvStr(fp+outcome+fmt.Sprint(len(m.Streams) > 1))))
}

func hasKey(l []datumRec, key string) bool {
	for _, x := range l {
		if x.key == key {
			return true
		}
	}
	return false
}

func isPMTPID(m *refts.Model, pid uint16) bool {
	for _, s := range m.Streams {
		if s.PID == pid {
			return s.Kind == "PMT"
		}
	}
	return false
}

func kindOf(m *refts.Model, pid uint16) string {
	for _, s := range m.Streams {
		if s.PID == pid {
			return s.Kind
		}
	}
	return "?"
}

func sameSeq(a, b []datumRec) string {
	if len(a) != len(b) {
		return fmt.Sprintf("%d data instead of %d", len(b), len(a))
	}
	for i := range a {
		if a[i].full != b[i].full {
			return fmt.Sprintf("datum %d differs: %s vs %s", i, core.Short(b[i].full, 200), core.Short(a[i].full, 200))
		}
	}
	return ""
}

func (lossy) Shrink(scAny any) []any {
	sc := scAny.(*LossyScenario)
	var out []any
	if sc.Enum {
		return nil
	}
	for i := range sc.Faults {
		c := *sc
		c.Faults = append(append([]ChanFault{}, sc.Faults[:i]...), sc.Faults[i+1:]...)
		if len(c.Faults) > 0 {
			out = append(out, &c)
		}
	}
	for i, f := range sc.Faults {
		if f.N > 1 || f.Gap > 0 {
			c := *sc
			c.Faults = append([]ChanFault{}, sc.Faults...)
			c.Faults[i].N, c.Faults[i].Gap = 1, 0
			out = append(out, &c)
		}
	}
	// Model shrinks change packet indexes: keep only those under which the fault list still
	// selects packets (the predicate of the minimiser re-checks the violation anyway).
	b0, err := sc.Model.Build()
	if err != nil {
		return out
	}
	for _, m := range shrinkModel(sc.Model) {
		b1, err := m.Build()
		if err != nil || len(b1.Packets) == 0 {
			continue
		}
		// remap faults by (pid, stream-local packet ordinal) where possible
		var fs []ChanFault
		okAll := true
		for _, f := range sc.Faults {
			if f.At >= len(b0.Meta) {
				okAll = false
				break
			}
			mt := b0.Meta[f.At]
			ord := 0
			for j := 0; j < f.At; j++ {
				if b0.Meta[j].PID == mt.PID {
					ord++
				}
			}
			at := -1
			c := 0
			for j, x := range b1.Meta {
				if x.PID == mt.PID {
					if c == ord {
						at = j
						break
					}
					c++
				}
			}
			if at < 0 {
				okAll = false
				break
			}
			nf := f
			nf.At = at
			fs = append(fs, nf)
		}
		if okAll {
			out = append(out, &LossyScenario{Model: m, Faults: fs})
		}
	}
	return out
}
