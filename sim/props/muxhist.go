package props

import (
	"encoding/json"
	"fmt"

	"verif/sim/core"
	"verif/sim/refts"
	"verif/sim/world"
)

// MuxHistScenario is a Muxer operation history (engine `muxhist`, properties C04, C05, C17).
type MuxHistScenario struct {
	Period int     `json:"period"`
	Ops    []MuxOp `json:"ops"`
	Enum   bool    `json:"enum,omitempty"` // member of the bounded-exhaustive family (informational)
	// WFault: the history is run a second time with a writer that fails once, at Write call
	// FailSeed modulo the number of Write calls of the fault-free run; the PMTs written by calls
	// that succeeded are compared with each other (version rule across a lost emission)
	WFault   bool   `json:"wfault,omitempty"`
	FailSeed uint64 `json:"fail_seed,omitempty"`
	Short    int    `json:"short,omitempty"`
}

type muxHist struct{}

func init() { core.Register(muxHist{}) }

func (muxHist) Name() string    { return "muxhist" }
func (muxHist) Props() []string { return []string{"C04", "C05", "C17"} }

func (muxHist) Runs(tier string) int64 {
	if tier == "thorough" {
		return 3000000
	}
	return 40000
}

func (muxHist) Meta() core.EngineMeta {
	return core.EngineMeta{
		Rule:       "Three quarters of the runs: seeded histories of AddElementaryStream/RemoveElementaryStream/SetPCRPID/WriteTables/WriteData/WritePacket (valid and invalid arguments, swarm-drawn weights, retransmit period 1..50) run on the real Muxer over a recording writer; after every call the bytes accepted so far are decoded by the reference TS/PSI decoder and compared with the MuxModel (DESIGN App. A). A run is non-trivial when it emitted at least one table pair and one unit; One quarter: bounded-exhaustive enumeration of all operation sequences over an 8-letter alphabet {add A, add auto, remove A, setpcr A, setpcr invalid, tables, data A, data A with RAI}, shortest first, periods 1 and 2 (complete up to length 3 in the quick tier, up to length 6 in the thorough tier; reach probes enum-len-N count them). One run in 1 201 is an allocator churn (about 8 000 or 16 000 cycles of add-with-automatic-PID / WriteTables / remove, with streams kept or with an otherwise empty Muxer, the ends of the PID space in use). Histories include WriteData without payload bytes and WritePacket with PIDs above 13 bits (open arguments: only the packet rules are judged). A fifth of the seeded histories is run a second time with a writer that fails once: consecutive PMTs written by successful calls must differ in version_number when they differ in content. distinct = distinct abstract fingerprints: the set of (previous op, op, outcome class) 3-grams of the history together with the reach probes hit.",
		Real:       []string{"astits.Muxer and everything below it (packet/PES/PSI/descriptor writers, astikit.BitsWriter)"},
		Stub:       []string{"SimWriter (recording io.Writer; fault-free except in the second pass of one history in five, where one Write call fails once)", "refts reference TS/AF/PSI decoder", "MuxModel (stream list, PCR PID, retransmit counter, dirty flag, continuity tracking)"},
		FaultKinds: []string{"rejected:data-unknown-pid", "rejected:tables", "rejected:packet-oversize", "rejected:add-duplicate", "rejected:remove-absent", "rejected:data-tables-impossible"},
		Assumptions: []string{
			"reference decoder and MuxModel are written from ISO/IEC 13818-1; implementation constants (PMT PID, first counter and version values) are learned from the output, never assumed",
			"explicit PIDs are drawn from 0x0020..0x1FFE without the documented PMT PID 0x1000; WritePacket uses PIDs 0x1F00..0x1FEF which no stream uses",
		},
		Levels: map[string]string{"C04": "exploration", "C05": "exploration", "C17": "exploration"},
	}
}

func (muxHist) Decode(raw json.RawMessage) (any, error) {
	var sc MuxHistScenario
	err := json.Unmarshal(raw, &sc)
	return &sc, err
}

// genLen draws a payload length, biased to the packet-boundary classes.
func genLen(r *core.PRNG, hdr, af int, big bool) int {
	switch r.Pick(3, 3, 8, 3, 1) {
	case 0:
		return r.Range(1, 3)
	case 1:
		return r.Range(4, 160)
	case 2:
		k := r.Range(1, 6)
		n := k*184 - hdr - af + r.Range(-3, 3)
		if n < 1 {
			n = 1
		}
		return n
	case 3:
		if big {
			return r.Range(2000, 4200)
		}
		return r.Range(200, 1200)
	}
	if big {
		if r.Chance(1, 10) {
			return r.Range(1030, 1400) * 184 // a large frame: more than a thousand packets
		}
		return 65535 - hdr + r.Range(-4, 40)
	}
	return r.Range(1, 600)
}

type genState struct {
	live     []int // handles of live streams
	explicit map[int]uint16
	auto     map[int]bool
	learned  map[int]bool // auto handle after a table emission
	pcrH     int
	usedPIDs []uint16
}

// GenMuxOps draws a history. rich selects full PES-header/AF variety (C01); invalid enables
// rejected calls (C04/C05/C17).
func GenMuxOps(r *core.PRNG, n int, period int, rich, invalid, allowDisc, big bool) []MuxOp {
	st := &genState{explicit: map[int]uint16{}, auto: map[int]bool{}, learned: map[int]bool{}, pcrH: -1}
	pidPool := make([]uint16, 0, 6)
	for i := 0; i < 6; i++ {
		var p uint16
		switch r.Pick(3, 1, 1) {
		case 0:
			p = uint16(r.Range(0x100, 0x106))
		case 1:
			p = uint16(r.Range(0x20, 0x1ffe))
		default:
			p = []uint16{0x20, 0x1ffe, 0x0fff, 0x1001, 0x21}[r.Intn(5)]
		}
		if p == 0x1000 {
			p = 0x1002
		}
		pidPool = append(pidPool, p)
	}
	wAdd, wRem, wPcr, wTab, wData, wPkt := 3, 1, 1, 1+r.Intn(3), 6+r.Intn(10), 0
	if invalid {
		wPkt = r.Intn(3)
		wRem += r.Intn(2)
	}
	churn := r.Chance(1, 10) // many content changes (version wrap)
	fat := r.Chance(1, 8)    // large descriptors (PMT overflow)
	var ops []MuxOp
	tag := 1
	add := func() {
		op := MuxOp{Op: "add", H: -1, Type: streamTypes[r.Intn(len(streamTypes))]}
		if r.Chance(1, 3) {
			op.PID = 0
		} else {
			op.PID = pidPool[r.Intn(len(pidPool))]
			if !invalid {
				for _, h := range st.live {
					if st.explicit[h] == op.PID {
						op.PID = 0 // avoid duplicates in valid-only histories
					}
				}
			}
		}
		nd := r.Pick(5, 3, 1)
		if fat {
			nd = r.Range(1, 3)
		}
		huge := fat && invalid && r.Chance(1, 5) // one descriptor loop beyond its 10-bit length field
		if huge {
			nd = 5
		}
		for k := 0; k < nd; k++ {
			mx := 12
			if fat {
				mx = 60
			}
			d := genDesc(r, mx)
			if huge {
				d = DescSpec{Kind: "user", Tag: uint8(r.Range(0x80, 0xfe)), Data: r.Bytes(r.Range(215, 253))}
			}
			if invalid && r.Chance(1, 12) {
				d.LenMode = 1 + r.Intn(2)
			}
			op.Descs = append(op.Descs, d)
		}
		h := len(ops)
		ops = append(ops, op)
		dup := false
		if op.PID != 0 {
			for _, l := range st.live {
				if st.explicit[l] == op.PID {
					dup = true
				}
			}
		}
		if !dup {
			st.live = append(st.live, h)
			if op.PID == 0 {
				st.auto[h] = true
			} else {
				st.explicit[h] = op.PID
			}
		}
	}
	pickLive := func() int {
		// prefer streams whose PID the harness can know
		for try := 0; try < 4; try++ {
			h := st.live[r.Intn(len(st.live))]
			if !st.auto[h] || st.learned[h] {
				return h
			}
		}
		return st.live[r.Intn(len(st.live))]
	}
	pcrValid := func() bool {
		for _, h := range st.live {
			if h == st.pcrH {
				return true
			}
		}
		return false
	}
	tablesEmitted := func() {
		for _, h := range st.live {
			if st.auto[h] {
				st.learned[h] = true
			}
		}
	}
	for len(ops) < n {
		if len(st.live) == 0 {
			add()
			continue
		}
		if !pcrValid() && r.Chance(5, 6) {
			h := pickLive()
			if !st.auto[h] || st.learned[h] {
				ops = append(ops, MuxOp{Op: "setpcr", H: h})
				st.pcrH = h
				continue
			}
			if pcrValid() {
				continue
			}
			// only unlearned automatic streams: add an explicit one so tables can ever be written
			op := MuxOp{Op: "add", H: -1, PID: uint16(0x200 + len(ops)), Type: 0x1b}
			h2 := len(ops)
			ops = append(ops, op)
			st.live = append(st.live, h2)
			st.explicit[h2] = op.PID
			continue
		}
		w := []int{wAdd, wRem, wPcr, wTab, wData, wPkt}
		if churn {
			w[2] += 6
			w[3] += 6
		}
		if len(st.live) >= 6 && !fat {
			w[0] = 0
		}
		switch r.Pick(w...) {
		case 0:
			add()
			if st.auto[len(ops)-1] && pcrValid() && r.Chance(3, 4) {
				ops = append(ops, MuxOp{Op: "tables", H: -1})
				tablesEmitted()
			}
		case 1:
			if invalid && r.Chance(1, 4) {
				ops = append(ops, MuxOp{Op: "remove", H: -1, PID: uint16(r.Range(0x20, 0x1ffe))})
				continue
			}
			k := r.Intn(len(st.live))
			h := st.live[k]
			ops = append(ops, MuxOp{Op: "remove", H: h})
			st.live = append(st.live[:k:k], st.live[k+1:]...)
		case 2:
			if invalid && r.Chance(1, 4) {
				ops = append(ops, MuxOp{Op: "setpcr", H: -1, PID: []uint16{0x1fff, 0x1ff0, 0x0, 0x1000}[r.Intn(4)]})
				st.pcrH = -1
				continue
			}
			h := pickLive()
			ops = append(ops, MuxOp{Op: "setpcr", H: h})
			st.pcrH = h
		case 3:
			ops = append(ops, MuxOp{Op: "tables", H: -1})
			if pcrValid() {
				tablesEmitted()
			}
		case 4:
			op := MuxOp{Op: "data", Tag: tag}
			tag++
			if invalid && r.Chance(1, 15) {
				op.H, op.PID = -1, uint16(r.Range(0x20, 0x1ffe))
			} else {
				op.H = pickLive()
			}
			ps := genPESSpec(r, rich)
			op.PES = &ps
			afMax := 0
			switch r.Pick(5, 3, 1) {
			case 1:
				afMax = 20
			case 2:
				afMax = 176
			}
			if r.Chance(1, 2) {
				op.AF = genAF(r, afMax, allowDisc)
				switch r.Pick(6, 1, 1) {
				case 1:
					op.AF.Stuffing = r.Range(1, 8) // caller-requested stuffing
				case 2:
					// size the AF so that exactly k bytes are left for the PES header
					room := 184 - op.AF.Size()
					want := ps.HeaderSize() + r.Range(-3, 2)
					if room > want && want >= 0 {
						op.AF.Stuffing = room - want
					}
				}
				if invalid && r.Chance(1, 25) {
					op.AF.HasPrivate = true
					op.AF.Private = r.Bytes(r.Range(180, 250))
				}
			}
			af := 0
			if op.AF != nil {
				af = op.AF.Size()
			}
			op.Len = genLen(r, ps.HeaderSize(), af, big && r.Chance(1, 6))
			if invalid && r.Chance(1, 40) {
				op.Len = 0 // a unit without payload bytes (what, if anything, is written is open; the packet rules are not)
			}
			ops = append(ops, op)
			if pcrValid() {
				tablesEmitted() // conservative: may or may not have been due
			}
		case 5:
			ps := &PktSpec{PID: uint16(0x1f00 + r.Intn(0xf0)), CC: uint8(r.Intn(16)), PUSI: r.Chance(1, 4), Prio: r.Chance(1, 8), TSC: uint8(r.Pick(6, 1, 1, 1)), Tag: tag}
			tag++
			if invalid && r.Chance(1, 12) {
				ps.Wide = []uint16{0x2000, 0x4000, 0x8000, 0xe000}[r.Intn(4)]
			}
			switch r.Pick(4, 3, 2, 2) {
			case 0: // payload only
				ps.HasPayload = true
				ps.PayloadLen = r.Range(1, 184)
			case 1: // AF + payload that fits
				ps.AF = genAF(r, 40, true)
				ps.HasPayload = true
				room := 184 - ps.AF.Size()
				if room < 1 {
					ps.AF = &refts.AF{RAI: true}
					room = 182
				}
				ps.PayloadLen = r.Range(1, room)
				if r.Bool() {
					ps.PayloadLen = room
				}
			case 2: // AF only, filling the packet
				a := genAF(r, 40, true)
				ps.AF = refts.StuffAF(a, 184)
				if ps.AF.Stuffing < 0 {
					ps.AF = refts.StuffAF(nil, 184)
				}
				if r.Chance(1, 3) {
					ps.Stale = r.Range(1, 200) // Payload left over from an earlier use of the struct
				}
			default: // does not fit
				ps.HasPayload = true
				if r.Chance(1, 3) {
					// an adaptation field that by itself exceeds a packet, up to sizes whose 8-bit
					// length would wrap around
					ps.AF = genAF(r, 0, true)
					if r.Bool() {
						ps.AF.HasPrivate, ps.AF.Private = true, r.Bytes(r.Range(186, 255))
					} else {
						ps.AF.Stuffing = r.Range(190, 460)
					}
					ps.PayloadLen = r.Range(1, 40)
					ps.HasPayload = r.Bool()
				} else if r.Bool() {
					ps.PayloadLen = 185 + r.Intn(3)
				} else {
					ps.AF = genAF(r, 30, true)
					ps.PayloadLen = 184 - ps.AF.Size() + 1 + r.Intn(3)
					if ps.PayloadLen < 1 {
						ps.PayloadLen = 190
					}
				}
			}
			ops = append(ops, MuxOp{Op: "packet", H: -1, Pkt: ps})
		}
	}
	return ops
}

// enumHistory decodes k into the k-th operation sequence (shortest first) over the 8-letter
// alphabet {add A, add auto, remove A, setpcr A, setpcr invalid, tables, data A, data A with RAI}.
func enumHistory(k int64) []MuxOp {
	length := 1
	for pow := int64(8); k >= pow; pow *= 8 {
		k -= pow
		length++
	}
	digits := make([]int, length)
	for i := length - 1; i >= 0; i-- {
		digits[i] = int(k % 8)
		k /= 8
	}
	const pidA = 0x101
	var ops []MuxOp
	lastAdd := -1
	for i, d := range digits {
		switch d {
		case 0:
			ops = append(ops, MuxOp{Op: "add", H: -1, PID: pidA, Type: 0x1b})
			lastAdd = i
		case 1:
			ops = append(ops, MuxOp{Op: "add", H: -1, PID: 0, Type: 0x0f})
		case 2:
			ops = append(ops, MuxOp{Op: "remove", H: lastAdd, PID: pidA})
		case 3:
			ops = append(ops, MuxOp{Op: "setpcr", H: lastAdd, PID: pidA})
		case 4:
			ops = append(ops, MuxOp{Op: "setpcr", H: -1, PID: 0x1ff0})
		case 5:
			ops = append(ops, MuxOp{Op: "tables", H: -1})
		case 6:
			ops = append(ops, MuxOp{Op: "data", H: lastAdd, PID: pidA, PES: &PESSpec{StreamID: 0xe0}, Len: 10, Tag: i + 1})
		default:
			ops = append(ops, MuxOp{Op: "data", H: lastAdd, PID: pidA, PES: &PESSpec{StreamID: 0xe0}, Len: 200, Tag: i + 1, AF: &refts.AF{RAI: true}})
		}
	}
	return ops
}

func (muxHist) Generate(r *core.PRNG, tier string, idx int64) any {
	// Every fourth run index enumerates operation sequences over a small alphabet, shortest
	// first, for periods 1 and 2 (bounded-exhaustive: all sequences up to length 3 in the
	// quick tier, up to length 6 in the thorough tier); the rest are seeded histories.
	if idx%4 == 0 {
		k := idx / 4
		return &MuxHistScenario{Period: 1 + int(k%2), Ops: enumHistory(k / 2), Enum: true}
	}
	if idx%churnEvery == 1 {
		return genChurn(r)
	}
	sc := &MuxHistScenario{}
	switch r.Pick(2, 3, 2, 1) {
	case 0:
		sc.Period = 1
	case 1:
		sc.Period = r.Range(2, 6)
	case 2:
		sc.Period = r.Range(7, 50)
	default:
		sc.Period = 40
	}
	var n int
	switch r.Pick(5, 4, 2, 1) {
	case 0:
		n = r.Range(1, 6)
	case 1:
		n = r.Range(7, 30)
	case 2:
		n = r.Range(31, 90)
	default:
		n = r.Range(91, 200)
	}
	sc.Ops = GenMuxOps(r, n, sc.Period, r.Chance(1, 3), true, true, true)
	if idx%5 == 2 {
		sc.WFault, sc.FailSeed, sc.Short = true, r.Uint64(), r.Range(0, 2)
	}
	return sc
}

// churnEvery: one run in churnEvery is a long allocator churn (about 8 000 add/tables/remove
// cycles, enough to take the automatic PID allocator once around the whole 13-bit PID space and
// into the streams it left behind on the first pass).
const churnEvery = 1201

func genChurn(r *core.PRNG) *MuxHistScenario {
	sc := &MuxHistScenario{Period: r.Range(1, 5)}
	x := uint16(r.Range(0x20, 0x1ffe))
	switch r.Intn(4) {
	case 0:
		x = uint16(r.Range(0x100, 0x110))
	case 1:
		x = []uint16{0x1ffe, 0x1ffe, 0x1ffd, 0x20}[r.Intn(4)] // the ends of the PID space are in use when the allocator gets there
	}
	if x == 0x1000 {
		x = 0x1001
	}
	sc.Ops = append(sc.Ops, MuxOp{Op: "add", H: -1, PID: x, Type: 0x1b}, MuxOp{Op: "setpcr", H: 0, PID: x})
	n := r.Range(7700, 8600)
	if r.Chance(1, 4) {
		n = r.Range(15800, 16400) // twice around
	}
	if r.Chance(2, 5) {
		// the Muxer is empty at every automatic add: the companion stream that makes WriteTables
		// possible is added after it and removed again
		sc.Ops = []MuxOp{{Op: "churn", H: -1, Type: 0x0f, N: n, Keep: 0, PID: x}}
		return sc
	}
	sc.Ops = append(sc.Ops, MuxOp{Op: "churn", H: -1, Type: 0x0f, N: n, Keep: r.Range(0, 6)})
	sc.Ops = append(sc.Ops, MuxOp{Op: "data", H: 0, PID: x, PES: &PESSpec{StreamID: 0xe0}, Len: r.Range(1, 400), Tag: 1})
	return sc
}

func (muxHist) Execute(scAny any, keepLog bool) *core.Outcome {
	sc := scAny.(*MuxHistScenario)
	out := core.NewOutcome()
	out.Log = core.NewLog(keepLog)
	out.Evals = 1
	if sc.Period < 1 {
		sc.Period = 1
	}
	s := NewMuxSim(sc.Period, world.WriterPlan{}, out, true)
	s.Run(sc.Ops)
	if sc.WFault && len(s.W.Calls) > 0 {
		versionsAcrossFault(sc, out, len(s.W.Calls))
	}
	// coverage bookkeeping
	grams := map[string]bool{}
	prev := "^"
	units, tables := 0, 0
	for _, c := range s.Calls {
		cls := c.Op.Op + ":" + errClass(c.Err)
		if c.Tables {
			cls += "+T"
			tables++
		}
		if c.Op.Op == "data" && c.Err == nil && !c.Skipped {
			units++
		}
		if c.Err != nil {
			switch c.Op.Op {
			case "data":
				if errClass(c.Err) == "ErrPIDNotFound" {
					out.Fire("rejected:data-unknown-pid")
				} else {
					out.Fire("rejected:data-tables-impossible")
				}
			case "tables":
				out.Fire("rejected:tables")
			case "packet":
				out.Fire("rejected:packet-oversize")
			case "add":
				out.Fire("rejected:add-duplicate")
			case "remove":
				out.Fire("rejected:remove-absent")
			}
		}
		grams[prev+">"+cls] = true
		prev = cls
	}
	if sc.Enum {
		out.Probe(fmt.Sprintf("enum-len-%d", len(sc.Ops)))
	}
	if units > 0 && tables > 0 {
		fp := core.Dump(sortedKeys(grams)) + core.Dump(sortedKeys64(out.Probes))
		out.FP(fmt.Sprintf("%x", fnvStr(fp)))
	}
	return out
}

// versionsAcrossFault: with a writer that fails once, every two consecutive PMTs that reached the
// writer through successful calls must carry different version numbers if their contents
// differ (a receiver ignores a PMT whose version it has already seen).
func versionsAcrossFault(sc *MuxHistScenario, out *core.Outcome, total int) {
	j := int(sc.FailSeed % uint64(total))
	o := core.NewOutcome()
	o.Log = out.Log
	out.Log.Add("fault", "writer-once", j, sc.Short)
	ms := NewMuxSim(sc.Period, world.WriterPlan{HasFault: true, FailCall: j, Short: sc.Short}, o, false)
	ms.Faulty = true
	prevVer, prevContent, prevCall := -1, "", -1
	lost := false
	for i := range sc.Ops {
		before := ms.W.Faults
		rec := ms.Step(i, &sc.Ops[i])
		if ms.W.Faults != before {
			lost = true
			out.Probe("writer-fault-once")
			continue
		}
		if rec.Err != nil || rec.Skipped {
			continue
		}
		b := ms.W.Buf[rec.Off0:rec.Off1]
		if len(b) == 0 || len(b)%188 != 0 {
			continue
		}
		pk, _ := refts.SplitPackets(b)
		for _, raw := range pk {
			p := refts.DecodeLenient(raw)
			if p == nil || raw[0] != 0x47 || !p.HasPayload() || !p.PUSI || ms.avoidPID < 0 || int(p.PID) != ms.avoidPID {
				continue
			}
			secs, err := refts.Frame(p.Payload)
			if err != nil || len(secs) != 1 || !secs[0].Complete || !secs[0].CRCOK {
				continue // C09's business
			}
			sb := p.Payload[secs[0].Start:secs[0].End]
			ps, err := refts.ParseLong(sb)
			if err != nil || len(sb) < 12 {
				continue
			}
			content := fmt.Sprintf("%x %02x %x", sb[:5], sb[5]&0xc1, sb[6:len(sb)-4])
			if prevVer >= 0 && content != prevContent && int(ps.Version) == prevVer {
				if lost {
					out.Violate("C17", "version-rule", "after-writer-fault", "a Write call (%d) failed once; the PMT written by call %d differs in content from the previous one (call %d) but carries the same version_number %d", j, i, prevCall, prevVer)
				}
			}
			if lost && prevVer >= 0 {
				out.Probe("pmt-compared-across-writer-fault")
			}
			prevVer, prevContent, prevCall = int(ps.Version), content, i
		}
	}
}

func sortedKeys(m map[string]bool) []string {
	var ks []string
	for k := range m {
		ks = append(ks, k)
	}
	sortStrings(ks)
	return ks
}

func sortedKeys64(m map[string]int64) []string {
	var ks []string
	for k := range m {
		ks = append(ks, k)
	}
	sortStrings(ks)
	return ks
}

func (muxHist) Shrink(scAny any) []any {
	sc := scAny.(*MuxHistScenario)
	var out []any
	for _, ops := range shrinkOps(sc.Ops) {
		out = append(out, &MuxHistScenario{Period: sc.Period, Ops: ops, WFault: sc.WFault, FailSeed: sc.FailSeed, Short: sc.Short})
	}
	if sc.Period > 1 {
		out = append(out, &MuxHistScenario{Period: 1, Ops: sc.Ops, WFault: sc.WFault, FailSeed: sc.FailSeed, Short: sc.Short}, &MuxHistScenario{Period: sc.Period - 1, Ops: sc.Ops, WFault: sc.WFault, FailSeed: sc.FailSeed, Short: sc.Short})
	}
	if sc.WFault {
		// the failing Write is FailSeed modulo the number of Write calls: try its neighbours
		for _, d := range []uint64{1, 2, 4, 8, 16} {
			if sc.FailSeed >= d {
				out = append(out, &MuxHistScenario{Period: sc.Period, Ops: sc.Ops, WFault: true, FailSeed: sc.FailSeed - d, Short: sc.Short})
			}
		}
	}
	return out
}

// dropOps removes ops [a,b) keeping handles consistent.
func dropOps(ops []MuxOp, a, b int) []MuxOp {
	var out []MuxOp
	for i, op := range ops {
		if i >= a && i < b {
			continue
		}
		if op.H >= a && op.H < b {
			continue // targets a removed add
		}
		if op.H >= b {
			op.H -= b - a
		}
		out = append(out, op)
	}
	return out
}

func shrinkOps(ops []MuxOp) [][]MuxOp {
	var out [][]MuxOp
	n := len(ops)
	for sz := n / 2; sz >= 1; sz /= 2 {
		for a := 0; a+sz <= n; a += sz {
			out = append(out, dropOps(ops, a, a+sz))
		}
		if sz == 1 {
			break
		}
	}
	for i := range ops {
		op := ops[i]
		mod := func(f func(o *MuxOp)) {
			c := append([]MuxOp{}, ops...)
			o := c[i]
			f(&o)
			c[i] = o
			out = append(out, c)
		}
		switch op.Op {
		case "data":
			if op.Len > 1 {
				mod(func(o *MuxOp) { o.Len = 1 })
				mod(func(o *MuxOp) { o.Len = o.Len / 2 })
				mod(func(o *MuxOp) { o.Len = o.Len - 1 })
			}
			if op.AF != nil {
				mod(func(o *MuxOp) { o.AF = nil })
				if op.AF.HasPrivate || op.AF.Ext != nil || op.AF.OPCR != nil || op.AF.HasSplice {
					mod(func(o *MuxOp) {
						a := *o.AF
						a.HasPrivate, a.Private, a.Ext, a.OPCR, a.HasSplice = false, nil, nil, nil, false
						o.AF = &a
					})
				}
			}
			if op.PES != nil && (op.PES.PTSDTS != 0 || op.PES.HasExt || op.PES.ESCR != nil || op.PES.StreamID != 0xe0) {
				mod(func(o *MuxOp) { o.PES = &PESSpec{StreamID: 0xe0} })
			}
		case "add":
			if len(op.Descs) > 0 {
				mod(func(o *MuxOp) { o.Descs = nil })
			}
		case "churn":
			for _, d := range []int{op.N / 2, 1000, 100, 10, 1} {
				if d >= 1 && op.N-d >= 1 {
					d := d
					mod(func(o *MuxOp) { o.N -= d })
				}
			}
			if op.Keep > 0 {
				mod(func(o *MuxOp) { o.Keep = 0 })
			}
		}
	}
	return out
}
