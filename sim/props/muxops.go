// Package props holds one engine per property (or group of properties): workload generator,
// simulated world wiring and oracles.
package props

import (
	"bytes"
	"context"
	"strings"
	"sync"

	"verif/sim/core"
	"verif/sim/refts"

	astits "github.com/asticode/go-astits"
)

// DescSpec is an elementary-stream descriptor of a Muxer workload. Kind selects how the
// library struct is filled; the reference encoding is Tag + Data.
type DescSpec struct {
	Kind    string `json:"kind"` // user | unknown | streamid | registration | iso639 | maxbitrate | align | typed:<name>
	Tag     uint8  `json:"tag"`
	Data    []byte `json:"data,omitempty"`
	LenMode int    `json:"len_mode,omitempty"` // 0 = Length correct, 1 = Length left 0, 2 = Length wrong
	Seed    uint64 `json:"seed,omitempty"`     // typed:<name>: content seed
	N       int    `json:"n,omitempty"`        // typed:<name>: items of list-valued descriptors
}

// ToAstits builds the library descriptor.
func (d DescSpec) ToAstits() *astits.Descriptor {
	if strings.HasPrefix(d.Kind, "typed:") {
		o := TypedDesc(d.Kind[6:], d.Seed, d.N)
		// the redundant Length field: left 0 or set to an arbitrary non-zero value
		if d.LenMode != 1 {
			o.Length = uint8(1 + d.Seed%40)
		}
		return o
	}
	o := &astits.Descriptor{Tag: d.Tag, Length: uint8(len(d.Data))}
	switch d.LenMode {
	case 1:
		o.Length = 0
	case 2:
		o.Length = uint8(len(d.Data)) + 3
	}
	data := append([]byte{}, d.Data...)
	switch d.Kind {
	case "user":
		o.UserDefined = data
	case "unknown":
		o.Unknown = &astits.DescriptorUnknown{Tag: d.Tag, Content: data}
	case "streamid":
		o.StreamIdentifier = &astits.DescriptorStreamIdentifier{ComponentTag: data[0]}
	case "registration":
		o.Registration = &astits.DescriptorRegistration{
			FormatIdentifier:             uint32(data[0])<<24 | uint32(data[1])<<16 | uint32(data[2])<<8 | uint32(data[3]),
			AdditionalIdentificationInfo: data[4:],
		}
	case "iso639":
		o.ISO639LanguageAndAudioType = &astits.DescriptorISO639LanguageAndAudioType{Language: data[:3], Type: data[3]}
	case "maxbitrate":
		v := uint32(data[0]&0x3f)<<16 | uint32(data[1])<<8 | uint32(data[2])
		o.MaximumBitrate = &astits.DescriptorMaximumBitrate{Bitrate: v * 50}
	case "align":
		o.DataStreamAlignment = &astits.DescriptorDataStreamAlignment{Type: data[0]}
	}
	return o
}

var (
	opaqueOnce sync.Once
	opaqueList []uint8
)

// opaqueTags returns the standard-range descriptor tags that this build of the library carries
// as opaque bytes (Descriptor.Unknown) through Muxer and Demuxer. Which tags have a typed codec is
// not fixed by any property (a later version may add one), so the list is learned from a
// throw-away Muxer/Demuxer pair rather than assumed. If no candidate qualifies the user-defined
// range is used instead.
func opaqueTags() []uint8 {
	opaqueOnce.Do(func() {
		for _, t := range []uint8{0x02, 0x03, 0x09, 0x0b, 0x0c, 0x11, 0x1b, 0x38, 0x41, 0x5a, 0x66, 0x7b} {
			if tagIsOpaque(t) {
				opaqueList = append(opaqueList, t)
			}
		}
		if len(opaqueList) == 0 {
			opaqueList = []uint8{0x80, 0x91, 0xa2, 0xb3}
		}
	})
	return opaqueList
}

// tagIsOpaque tries bodies of every length the workloads use (a typed view may depend on the
// body fitting the type's layout).
func tagIsOpaque(tag uint8) bool {
	for n := 1; n <= 24; n++ {
		content := make([]byte, n)
		for i := range content {
			content[i] = byte(0x21 + (i*7+n)%90)
		}
		if !tagIsOpaque1(tag, content) {
			return false
		}
	}
	return true
}

func tagIsOpaque1(tag uint8, content []byte) (ok bool) {
	defer func() {
		if recover() != nil {
			ok = false
		}
	}()
	var buf bytes.Buffer
	m := astits.NewMuxer(context.Background(), &buf)
	es := astits.PMTElementaryStream{ElementaryPID: 0x1ffd, StreamType: astits.StreamTypeH264Video,
		ElementaryStreamDescriptors: []*astits.Descriptor{{Tag: tag, Length: uint8(len(content)), Unknown: &astits.DescriptorUnknown{Tag: tag, Content: content}}}}
	if m.AddElementaryStream(es) != nil {
		return false
	}
	m.SetPCRPID(0x1ffd)
	if _, err := m.WriteTables(); err != nil {
		return false
	}
	dmx := astits.NewDemuxer(context.Background(), bytes.NewReader(buf.Bytes()), astits.DemuxerOptPacketSize(188))
	for i := 0; i < 8; i++ {
		d, err := dmx.NextData()
		if err != nil {
			return false
		}
		if d.PMT == nil {
			continue
		}
		if len(d.PMT.ElementaryStreams) != 1 || len(d.PMT.ElementaryStreams[0].ElementaryStreamDescriptors) != 1 {
			return false
		}
		// exactly the opaque form and nothing besides it (a typed view added next to Unknown
		// disqualifies the tag as well)
		x := d.PMT.ElementaryStreams[0].ElementaryStreamDescriptors[0]
		want := &astits.Descriptor{Tag: tag, Length: uint8(len(content)), Unknown: &astits.DescriptorUnknown{Tag: tag, Content: content}}
		return core.Dump(x) == core.Dump(want)
	}
	return false
}

func genDesc(r *core.PRNG, maxData int) DescSpec {
	var d DescSpec
	switch r.Pick(5, 2, 2, 2, 2, 1, 1) {
	case 0:
		d = DescSpec{Kind: "user", Tag: uint8(r.Range(0x80, 0xfe)), Data: r.Bytes(r.Range(1, maxData))}
		if r.Chance(1, 10) {
			d.Data = nil // a descriptor with an empty body
		}
	case 1:
		// tags below 0x80 that the library has no typed decoder for (learned, see opaqueTags)
		tags := opaqueTags()
		d = DescSpec{Kind: "unknown", Tag: tags[r.Intn(len(tags))], Data: r.Bytes(r.Range(1, maxData))}
		if tags[0] >= 0x80 {
			d.Kind = "user"
		}
	case 2:
		d = DescSpec{Kind: "streamid", Tag: 0x52, Data: r.Bytes(1)}
	case 3:
		n := 4
		if maxData > 4 {
			n += r.Intn(min(maxData-4, 12) + 1)
		}
		d = DescSpec{Kind: "registration", Tag: 0x05, Data: r.Bytes(n)}
	case 4:
		d = DescSpec{Kind: "iso639", Tag: 0x0a, Data: append([]byte{byte('a' + r.Intn(26)), byte('a' + r.Intn(26)), byte('a' + r.Intn(26))}, byte(r.Intn(4)))}
	case 5:
		b := r.Bytes(3)
		b[0] |= 0xc0
		d = DescSpec{Kind: "maxbitrate", Tag: 0x0e, Data: b}
	default:
		d = DescSpec{Kind: "align", Tag: 0x06, Data: []byte{byte(r.Range(1, 4))}}
	}
	return d
}

// RefDescs is the reference encoding of a descriptor list (what ISO 13818-1 puts on the wire
// whatever the redundant Length field of the library struct says).
func RefDescs(ds []DescSpec) []refts.Desc {
	var o []refts.Desc
	for _, d := range ds {
		o = append(o, refts.Desc{Tag: d.Tag, Data: d.Data})
	}
	return o
}

// PESSpec describes the PES header of a WriteData call.
type PESSpec struct {
	StreamID   uint8        `json:"stream_id"` // 0 = derive from the stream type
	Scrambling uint8        `json:"scrambling,omitempty"`
	Prio       bool         `json:"prio,omitempty"`
	Align      bool         `json:"align,omitempty"`
	Copyright  bool         `json:"copyright,omitempty"`
	Original   bool         `json:"original,omitempty"`
	PTSDTS     uint8        `json:"pts_dts,omitempty"` // 0, 2, 3
	PTS        uint64       `json:"pts,omitempty"`
	DTS        uint64       `json:"dts,omitempty"`
	ESCR       *refts.Clock `json:"escr,omitempty"`
	HasRate    bool         `json:"has_rate,omitempty"`
	Rate       uint32       `json:"rate,omitempty"`
	Trick      *TrickSpec   `json:"trick,omitempty"`
	HasCopy    bool         `json:"has_copy,omitempty"`
	CopyInfo   uint8        `json:"copy_info,omitempty"`
	HasExt     bool         `json:"has_ext,omitempty"`
	Private    []byte       `json:"private,omitempty"` // 16 bytes when present
	HasSeq     bool         `json:"has_seq,omitempty"`
	Seq        uint8        `json:"seq,omitempty"`
	MPEG1ID    uint8        `json:"mpeg1_id,omitempty"`
	OrigStuff  uint8        `json:"orig_stuff,omitempty"`
	HasPSTD    bool         `json:"has_pstd,omitempty"`
	PSTDScale  uint8        `json:"pstd_scale,omitempty"`
	PSTDSize   uint16       `json:"pstd_size,omitempty"`
	HasExt2    bool         `json:"has_ext2,omitempty"`
	Ext2       []byte       `json:"ext2,omitempty"`
	NoOptional bool         `json:"no_optional,omitempty"` // stream id without optional header
	// NilOpt: the caller leaves PESHeader.OptionalHeader nil although the stream id carries the
	// optional header; a conformant PES then has the empty one (flags 0, header_data_length 0)
	NilOpt bool `json:"nil_opt,omitempty"`
	// Ext2LenMode: the redundant Extension2Length field: 0 = len(Ext2), 1 = left 0, 2 = wrong
	Ext2LenMode int `json:"ext2_len_mode,omitempty"`
}

type TrickSpec struct {
	Control uint8 `json:"control"`
	FieldID uint8 `json:"field_id,omitempty"`
	Intra   uint8 `json:"intra,omitempty"`
	Freq    uint8 `json:"freq,omitempty"`
	Repeat  uint8 `json:"repeat,omitempty"`
}

func clockRef(c *refts.Clock) *astits.ClockReference {
	if c == nil {
		return nil
	}
	return &astits.ClockReference{Base: int64(c.Base), Extension: int64(c.Ext)}
}

// ToAstits builds the library PES header.
func (p PESSpec) ToAstits() *astits.PESHeader {
	h := &astits.PESHeader{StreamID: p.StreamID}
	if p.NoOptional || p.NilOpt {
		return h
	}
	o := &astits.PESOptionalHeader{
		MarkerBits: 2, ScramblingControl: p.Scrambling, Priority: p.Prio, DataAlignmentIndicator: p.Align,
		IsCopyrighted: p.Copyright, IsOriginal: p.Original, PTSDTSIndicator: p.PTSDTS,
	}
	if p.PTSDTS == 2 || p.PTSDTS == 3 {
		o.PTS = &astits.ClockReference{Base: int64(p.PTS)}
	}
	if p.PTSDTS == 3 {
		o.DTS = &astits.ClockReference{Base: int64(p.DTS)}
	}
	if p.ESCR != nil {
		o.HasESCR, o.ESCR = true, clockRef(p.ESCR)
	}
	if p.HasRate {
		o.HasESRate, o.ESRate = true, p.Rate
	}
	if p.Trick != nil {
		o.HasDSMTrickMode = true
		o.DSMTrickMode = &astits.DSMTrickMode{TrickModeControl: p.Trick.Control, FieldID: p.Trick.FieldID, IntraSliceRefresh: p.Trick.Intra, FrequencyTruncation: p.Trick.Freq, RepeatControl: p.Trick.Repeat}
	}
	if p.HasCopy {
		o.HasAdditionalCopyInfo, o.AdditionalCopyInfo = true, p.CopyInfo
	}
	if p.HasExt {
		o.HasExtension = true
		if p.Private != nil {
			o.HasPrivateData, o.PrivateData = true, append([]byte{}, p.Private...)
		}
		if p.HasSeq {
			o.HasProgramPacketSequenceCounter = true
			o.PacketSequenceCounter, o.MPEG1OrMPEG2ID, o.OriginalStuffingLength = p.Seq, p.MPEG1ID, p.OrigStuff
		}
		if p.HasPSTD {
			o.HasPSTDBuffer, o.PSTDBufferScale, o.PSTDBufferSize = true, p.PSTDScale, p.PSTDSize
		}
		if p.HasExt2 {
			o.HasExtension2, o.Extension2Data = true, append([]byte{}, p.Ext2...)
			o.Extension2Length = uint8(len(p.Ext2))
			switch p.Ext2LenMode {
			case 1:
				o.Extension2Length = 0
			case 2:
				o.Extension2Length = uint8(len(p.Ext2)+5) & 0x7f
			}
		}
	}
	o.HasOptionalFields = true
	h.OptionalHeader = o
	return h
}

// HeaderSize is the reference size of the PES header this spec encodes to (ISO 13818-1 2.4.3.7).
func (p PESSpec) HeaderSize() int {
	n := 6
	if p.NoOptional {
		return n
	}
	n += 3
	switch p.PTSDTS {
	case 2:
		n += 5
	case 3:
		n += 10
	}
	if p.ESCR != nil {
		n += 6
	}
	if p.HasRate {
		n += 3
	}
	if p.Trick != nil {
		n++
	}
	if p.HasCopy {
		n++
	}
	if p.HasExt {
		n++
		if p.Private != nil {
			n += 16
		}
		if p.HasSeq {
			n += 2
		}
		if p.HasPSTD {
			n += 2
		}
		if p.HasExt2 {
			n += 1 + len(p.Ext2)
		}
	}
	return n
}

func genPESSpec(r *core.PRNG, rich bool) PESSpec {
	var p PESSpec
	switch r.Pick(4, 3, 2, 1) {
	case 0:
		p.StreamID = 0
	case 1:
		p.StreamID = uint8(r.Range(0xe0, 0xef))
	case 2:
		p.StreamID = uint8(r.Range(0xc0, 0xdf))
	default:
		p.StreamID = []uint8{0xbd, 0xfd, 0xfc, 0xfa}[r.Intn(4)]
	}
	if rich && r.Chance(1, 12) {
		p.StreamID = 0xbf // private_stream_2: no optional header
		p.NoOptional = true
		return p
	}
	if r.Chance(1, 25) {
		p.NilOpt = true
		return p
	}
	p.PTSDTS = []uint8{0, 2, 2, 3}[r.Intn(4)]
	ts := func() uint64 {
		switch r.Intn(5) {
		case 0:
			return 0
		case 1:
			return 1<<33 - 1
		case 2:
			return 1 << uint(r.Intn(33))
		}
		return r.Uint64() & (1<<33 - 1)
	}
	p.PTS, p.DTS = ts(), ts()
	if p.PTSDTS != 3 {
		p.DTS = 0
	}
	if p.PTSDTS == 0 {
		p.PTS = 0
	}
	if !rich {
		return p
	}
	p.Prio, p.Align, p.Copyright, p.Original = r.Chance(1, 4), r.Chance(1, 4), r.Chance(1, 4), r.Chance(1, 4)
	p.Scrambling = uint8(r.Pick(6, 1, 1, 1))
	if r.Chance(1, 4) {
		p.ESCR = &refts.Clock{Base: ts(), Ext: uint16(r.Intn(300))}
	}
	if r.Chance(1, 4) {
		p.HasRate, p.Rate = true, uint32(r.Intn(1<<22))
	}
	if r.Chance(1, 5) {
		t := &TrickSpec{Control: uint8(r.Intn(5))}
		switch t.Control {
		case 0, 3:
			t.FieldID, t.Intra, t.Freq = uint8(r.Intn(4)), uint8(r.Intn(2)), uint8(r.Intn(4))
		case 2:
			t.FieldID = uint8(r.Intn(4))
		case 1, 4:
			t.Repeat = uint8(r.Intn(32))
		}
		p.Trick = t
	}
	if r.Chance(1, 5) {
		p.HasCopy, p.CopyInfo = true, uint8(r.Intn(128))
	}
	if r.Chance(1, 3) {
		p.HasExt = true
		if r.Chance(1, 2) {
			p.Private = r.Bytes(16)
			if r.Chance(1, 3) {
				p.Private = p.Private[:r.Range(1, 15)] // shorter than the 16-byte field: the writer pads with zeros
			}
		}
		if r.Chance(1, 2) {
			p.HasSeq, p.Seq, p.MPEG1ID, p.OrigStuff = true, uint8(r.Intn(128)), uint8(r.Intn(2)), uint8(r.Intn(64))
		}
		if r.Chance(1, 2) {
			p.HasPSTD, p.PSTDScale, p.PSTDSize = true, uint8(r.Intn(2)), uint16(r.Intn(1<<13))
		}
		if r.Chance(1, 2) {
			p.HasExt2 = true
			n := []int{0, 1, 5, 40, 100, 127}[r.Intn(6)]
			p.Ext2 = r.Bytes(n)
			p.Ext2LenMode = r.Pick(3, 1, 1)
		}
	}
	return p
}

// AFToAstits builds the library adaptation field from the reference description.
func AFToAstits(a *refts.AF) *astits.PacketAdaptationField {
	if a == nil {
		return nil
	}
	if a.Stuffing < 0 {
		return &astits.PacketAdaptationField{IsOneByteStuffing: true}
	}
	o := &astits.PacketAdaptationField{
		DiscontinuityIndicator: a.Disc, RandomAccessIndicator: a.RAI, ElementaryStreamPriorityIndicator: a.ESPI,
		StuffingLength: a.Stuffing,
	}
	if a.PCR != nil {
		o.HasPCR, o.PCR = true, clockRef(a.PCR)
	}
	if a.OPCR != nil {
		o.HasOPCR, o.OPCR = true, clockRef(a.OPCR)
	}
	if a.HasSplice {
		o.HasSplicingCountdown, o.SpliceCountdown = true, int(a.Splice)
	}
	if a.HasPrivate {
		o.HasTransportPrivateData = true
		o.TransportPrivateData = append([]byte{}, a.Private...)
		o.TransportPrivateDataLength = len(a.Private)
	}
	if e := a.Ext; e != nil {
		o.HasAdaptationExtensionField = true
		x := &astits.PacketAdaptationExtensionField{
			HasLegalTimeWindow: e.LTW, LegalTimeWindowIsValid: e.LTWValid, LegalTimeWindowOffset: e.LTWOffset,
			HasPiecewiseRate: e.Piecewise, PiecewiseRate: e.Rate, HasSeamlessSplice: e.Seamless, SpliceType: e.SpliceType,
		}
		if e.Seamless {
			x.DTSNextAccessUnit = &astits.ClockReference{Base: int64(e.DTSNext)}
		}
		o.AdaptationExtensionField = x
	}
	return o
}

func genClock(r *core.PRNG) *refts.Clock {
	c := &refts.Clock{Base: r.Uint64() & (1<<33 - 1), Ext: uint16(r.Intn(300))}
	if r.Chance(1, 6) {
		c.Base = 1<<33 - 1
	}
	return c
}

// genAF draws an adaptation field of a WriteData call. privMax bounds the private data
// length, which is what makes an AF large.
func genAF(r *core.PRNG, privMax int, allowDisc bool) *refts.AF {
	a := &refts.AF{}
	a.RAI = r.Chance(1, 3)
	a.ESPI = r.Chance(1, 6)
	if allowDisc {
		a.Disc = r.Chance(1, 8)
	}
	if r.Chance(1, 2) {
		a.PCR = genClock(r)
	}
	if r.Chance(1, 6) {
		a.OPCR = genClock(r)
	}
	if r.Chance(1, 6) {
		a.HasSplice, a.Splice = true, uint8(r.Intn(256))
	}
	if privMax > 0 && r.Chance(1, 3) {
		a.HasPrivate = true
		a.Private = r.Bytes(r.Intn(privMax + 1))
	}
	if r.Chance(1, 6) {
		e := &refts.AFExt{}
		if r.Bool() {
			e.LTW, e.LTWValid, e.LTWOffset = true, r.Bool(), uint16(r.Intn(1<<15))
		}
		if r.Bool() {
			e.Piecewise, e.Rate = true, uint32(r.Intn(1<<22))
		}
		if r.Bool() {
			e.Seamless, e.SpliceType, e.DTSNext = true, uint8(r.Intn(16)), r.Uint64()&(1<<33-1)
		}
		a.Ext = e
	}
	return a
}

// PayloadByte is the tagged payload alphabet: bytes 0x02..0xFE derived from (tag, position),
// so that no fragment of a payload can begin with a PES start code and every unit is
// attributable to the call that wrote it.
func PayloadByte(tag, i int) byte {
	x := uint32(tag)*2654435761 + uint32(i)*40503 + uint32(i>>8)*97
	x ^= x >> 13
	return byte(2 + x%253)
}

// Payload builds the payload of a unit.
func Payload(tag, n int) []byte {
	b := make([]byte, n)
	for i := range b {
		b[i] = PayloadByte(tag, i)
	}
	return b
}

// MuxOp is one call of a Muxer history.
type MuxOp struct {
	Op     string     `json:"op"`            // add | remove | setpcr | tables | data | packet | churn
	H      int        `json:"h"`             // handle = index of the add op this call targets; -1: use PID
	PID    uint16     `json:"pid,omitempty"` // add: explicit PID (0 = automatic); others: raw PID when H<0
	Type   uint8      `json:"type,omitempty"`
	Descs  []DescSpec `json:"descs,omitempty"`
	AF     *refts.AF  `json:"af,omitempty"`
	PES    *PESSpec   `json:"pes,omitempty"`
	Len    int        `json:"len,omitempty"`
	Tag    int        `json:"tag,omitempty"`
	Pkt    *PktSpec   `json:"pkt,omitempty"`
	NilPES bool       `json:"-"`
	// churn: N cycles of {add with automatic PID, WriteTables (reveals the PID), remove}; the
	// first Keep streams are not removed. Drives the automatic allocator through its whole range.
	N    int `json:"n,omitempty"`
	Keep int `json:"keep,omitempty"`
}

// PktSpec is the argument of a WritePacket call.
type PktSpec struct {
	PID        uint16    `json:"pid"`
	CC         uint8     `json:"cc"`
	PUSI       bool      `json:"pusi,omitempty"`
	Prio       bool      `json:"prio,omitempty"`
	TSC        uint8     `json:"tsc,omitempty"`
	HasPayload bool      `json:"has_payload,omitempty"`
	AF         *refts.AF `json:"af,omitempty"`
	PayloadLen int       `json:"payload_len,omitempty"`
	Tag        int       `json:"tag,omitempty"`
	// Stale > 0 with HasPayload false: the Payload slice is left set (a reused Packet struct)
	Stale int `json:"stale,omitempty"`
	// Wide: bits above the 13-bit PID field set in the PID handed to WritePacket (an
	// out-of-range argument: rejected, or written as the 13-bit PID - never into other header bits)
	Wide uint16 `json:"wide,omitempty"`
}

func (p *PktSpec) ToAstits() *astits.Packet {
	o := &astits.Packet{Header: astits.PacketHeader{
		ContinuityCounter: p.CC, HasAdaptationField: p.AF != nil, HasPayload: p.HasPayload,
		PayloadUnitStartIndicator: p.PUSI, PID: p.PID | p.Wide&0xe000, TransportPriority: p.Prio, TransportScramblingControl: p.TSC,
	}}
	o.AdaptationField = AFToAstits(p.AF)
	if p.HasPayload {
		o.Payload = Payload(p.Tag, p.PayloadLen)
	} else if p.Stale > 0 {
		o.Payload = Payload(p.Tag, p.Stale)
	}
	return o
}

var streamTypes = []uint8{0x01, 0x02, 0x03, 0x04, 0x05, 0x06, 0x0f, 0x10, 0x11, 0x15, 0x1b, 0x24, 0x42, 0xea, 0xd1, 0x81, 0x82, 0x83, 0x86, 0x87, 0x07, 0xa0}
