package props

import "sort"

func sortStrings(s []string) { sort.Strings(s) }

func fnvStr(s string) uint64 {
	h := uint64(14695981039346656037)
	for i := 0; i < len(s); i++ {
		h ^= uint64(s[i])
		h *= 1099511628211
	}
	return h
}
