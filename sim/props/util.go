package props

import "sort"

// pidKeys returns the keys of a per-PID map in increasing order (map iteration order must
// never reach a verdict or a log).
func pidKeys[V any](m map[uint16]V) []uint16 {
	ks := make([]uint16, 0, len(m))
	for k := range m {
		ks = append(ks, k)
	}
	sort.Slice(ks, func(i, j int) bool { return ks[i] < ks[j] })
	return ks
}

func sortStrings(s []string) { sort.Strings(s) }

func fnvStr(s string) uint64 {
	h := uint64(14695981039346656037)
	for i := 0; i < len(s); i++ {
		h ^= uint64(s[i])
		h *= 1099511628211
	}
	return h
}
