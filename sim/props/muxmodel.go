package props

import (
	"bytes"
	"context"
	"errors"
	"fmt"
	"sync"

	"verif/sim/core"
	"verif/sim/refts"
	"verif/sim/world"

	astits "github.com/asticode/go-astits"
)

// mStream is one elementary stream of the Muxer reference model.
type mStream struct {
	h     int
	auto  bool
	pid   int // -1 = automatic PID not yet learned from a PMT
	typ   uint8
	descs []DescSpec
}

// CallRec is what the simulator recorded about one Muxer API call.
type CallRec struct {
	I       int
	Op      *MuxOp
	PID     int // resolved PID or -1
	Skipped bool
	N       int
	Err     error
	Off0    int
	Off1    int
	W0, W1  int // SimWriter call index range
	Pkts    []*refts.Pkt
	Raw     [][]byte
	Tables  bool // a PAT+PMT pair was observed in this call
	Data    *astits.MuxerData
	Payload []byte // pristine copy of the payload handed to WriteData
	// PMTStreams is the model's stream list at the time of the call (for C01).
	ModelStreams []mStream
	ModelPCR     int
}

// MuxSim runs a Muxer history against the real Muxer on a SimWriter and checks it against the
// reference model (DESIGN Appendix A).
type MuxSim struct {
	Out    *core.Outcome
	W      *world.SimWriter
	M      *astits.Muxer
	Period int
	Check  bool // evaluate C04/C05/C17 oracles

	streams []*mStream
	pcr     int // -1 = never set
	sinceLo int
	sinceHi int
	dirty   bool
	pmtPID  int
	lastCC  map[int]int
	pmtVer  int
	patVer  int
	Calls   []*CallRec
	// PIDOf maps handle -> PID (or -1)
	PIDOf map[int]int
	// Faulty is set by the I/O-fault engine: the writer may fail, so the fault-free oracles
	// are off and only the recording remains.
	Faulty bool
	// Broken: the output lost packet alignment; reported once, later packets are not judged.
	Broken bool
	// avoidPID is the PMT PID learned from a probe Muxer (-1 unknown)
	avoidPID int
}

var (
	probeOnce   sync.Once
	probedPMT   = -1
	probedFirst = -1
)

// probePMTPID learns, once per process, the PID this build of the library puts its PMT on (an
// implementation constant the properties do not fix): a throw-away Muxer writes one table pair
// and the reference decoder reads the PAT. Workloads never add an elementary stream on that PID
// (a caller error outside every property's scope).
func probePMTPID() int {
	probeOnce.Do(func() {
		defer func() { recover() }()
		var buf bytes.Buffer
		m := astits.NewMuxer(context.Background(), &buf)
		if m.AddElementaryStream(astits.PMTElementaryStream{ElementaryPID: 0x1ffd, StreamType: astits.StreamTypeH264Video}) != nil {
			return
		}
		m.SetPCRPID(0x1ffd)
		if _, err := m.WriteTables(); err != nil || buf.Len() < 188 {
			return
		}
		p, err := refts.DecodePacket(buf.Bytes()[:188])
		if err != nil || p.PID != 0 {
			return
		}
		secs, err := refts.Frame(p.Payload)
		if err != nil || len(secs) != 1 || !secs[0].Complete {
			return
		}
		ps, err := refts.ParseLong(p.Payload[secs[0].Start:secs[0].End])
		if err != nil {
			return
		}
		if t, err := refts.ParsePAT(ps); err == nil && len(t.Programs) == 1 {
			probedPMT = int(t.Programs[0].PID)
		}
	})
	return probedPMT
}

func NewMuxSim(period int, wplan world.WriterPlan, out *core.Outcome, check bool) *MuxSim {
	s := &MuxSim{Out: out, Period: period, Check: check, pcr: -1, pmtPID: -1, pmtVer: -1, patVer: -1,
		lastCC: map[int]int{}, PIDOf: map[int]int{}, dirty: true}
	s.avoidPID = probePMTPID()
	s.W = world.NewWriter(wplan, out.Log)
	s.M = astits.NewMuxer(context.Background(), s.W, astits.MuxerOptTablesRetransmitPeriod(period))
	s.sinceLo, s.sinceHi = period, period // tables are due before the first unit
	return s
}

func (s *MuxSim) find(pid int) int {
	for i, st := range s.streams {
		if st.pid == pid {
			return i
		}
	}
	return -1
}

func (s *MuxSim) unlearned() bool {
	for _, st := range s.streams {
		if st.pid < 0 {
			return true
		}
	}
	return false
}

// refPMTSize is the size of pointer_field + reference-encoded PMT section of the model state.
func (s *MuxSim) refPMTSize() int {
	n := 1 + 3 + 5 + 4 + 4
	for _, st := range s.streams {
		n += 5
		for _, d := range st.descs {
			n += 2 + len(d.Data)
		}
	}
	return n
}

// tablesOK: 1 = WriteTables must succeed, 0 = must fail, -1 = cannot be decided from outside
// (an automatic PID that no PMT has revealed yet could be the PCR PID).
func (s *MuxSim) tablesOK() int {
	if s.refPMTSize() > 184 {
		return 0
	}
	if s.pcr >= 0 && s.find(s.pcr) >= 0 {
		return 1
	}
	// The PCR PID of a Muxer on which SetPCRPID was never called is the zero value; no stream
	// can have it unless an automatic PID does (which C17 forbids).
	if s.unlearned() {
		return -1
	}
	return 0
}

func (s *MuxSim) v(prop, class, sig, f string, a ...any) {
	// Once the byte stream is misaligned nothing after it can be attributed to a call any
	// more: the misalignment itself has been reported (C04) and the run stops being judged.
	if s.Check && !s.Faulty && (!s.Broken || class == "partial-packet") {
		s.Out.Violate(prop, class, sig, f, a...)
	}
}

func errClass(err error) string {
	switch {
	case err == nil:
		return "nil"
	case errors.Is(err, astits.ErrPIDNotFound):
		return "ErrPIDNotFound"
	case errors.Is(err, astits.ErrPIDAlreadyExists):
		return "ErrPIDAlreadyExists"
	case errors.Is(err, astits.ErrPCRPIDInvalid):
		return "ErrPCRPIDInvalid"
	case errors.Is(err, astits.ErrNoMorePackets):
		return "ErrNoMorePackets"
	case errors.Is(err, world.ErrInjected):
		return "injected"
	}
	return "other"
}

func (s *MuxSim) resolve(op *MuxOp) int {
	if op.H < 0 {
		// A raw PID could be the PID of an automatic stream no PMT has revealed yet; the model
		// could not tell which stream the call hits, so the call is not issued.
		if s.unlearned() {
			return -1
		}
		return int(op.PID)
	}
	if p, ok := s.PIDOf[op.H]; ok {
		// a handle whose stream was removed is a raw PID again (it may meanwhile belong to an
		// automatic stream not yet revealed)
		if s.find(p) < 0 && s.unlearned() {
			return -1
		}
		return p
	}
	return -1
}

// Run executes the whole history.
func (s *MuxSim) Run(ops []MuxOp) {
	for i := range ops {
		s.Step(i, &ops[i])
	}
}

// Step executes one call, records it and checks it.
func (s *MuxSim) Step(i int, op *MuxOp) *CallRec {
	rec := &CallRec{I: i, Op: op, PID: -1, Off0: s.W.Accepted(), W0: len(s.W.Calls)}
	s.Calls = append(s.Calls, rec)
	s.Out.Steps++
	log := s.Out.Log
	switch op.Op {
	case "add":
		if op.PID != 0 && ((s.pmtPID >= 0 && int(op.PID) == s.pmtPID) || int(op.PID) == s.avoidPID) {
			// scope: an explicit PID equal to the (learned) PMT PID is a caller error
			rec.Skipped = true
			s.Out.Probe("skipped-pmt-pid")
			return rec
		}
		es := astits.PMTElementaryStream{ElementaryPID: op.PID, StreamType: astits.StreamType(op.Type)}
		for _, d := range op.Descs {
			es.ElementaryStreamDescriptors = append(es.ElementaryStreamDescriptors, d.ToAstits())
		}
		rec.Err = s.M.AddElementaryStream(es)
		log.Add("mux", "add", i, op.PID, op.Type, errClass(rec.Err))
		s.finish(rec)
		if op.PID != 0 {
			rec.PID = int(op.PID)
			exists := s.find(int(op.PID)) >= 0
			if rec.Err == nil {
				if exists {
					s.v("C17", "add-duplicate-accepted", "", "call %d: AddElementaryStream(PID %#x) succeeded although the PID is already added", i, op.PID)
				}
				s.streams = append(s.streams, &mStream{h: i, pid: int(op.PID), typ: op.Type, descs: op.Descs})
				s.PIDOf[i] = int(op.PID)
				s.dirty = true
				delete(s.lastCC, int(op.PID))
			} else {
				s.Out.Probe("add-rejected")
				if !exists && !s.unlearned() {
					s.v("C17", "add-rejected", errClass(rec.Err), "call %d: AddElementaryStream(PID %#x) failed with %v although the PID is free", i, op.PID, rec.Err)
				}
			}
		} else {
			if rec.Err != nil {
				s.v("C17", "add-rejected", "auto", "call %d: AddElementaryStream with automatic PID failed: %v", i, rec.Err)
			} else {
				s.streams = append(s.streams, &mStream{h: i, auto: true, pid: -1, typ: op.Type, descs: op.Descs})
				s.dirty = true
				s.Out.Probe("auto-pid")
			}
		}
	case "remove":
		pid := s.resolve(op)
		rec.PID = pid
		if pid < 0 {
			rec.Skipped = true
			s.Out.Probe("skipped-unresolved")
			return rec
		}
		rec.Err = s.M.RemoveElementaryStream(uint16(pid))
		log.Add("mux", "remove", i, pid, errClass(rec.Err))
		s.finish(rec)
		idx := s.find(pid)
		if rec.Err == nil {
			if idx < 0 && !s.unlearned() {
				s.v("C17", "remove-absent-accepted", "", "call %d: RemoveElementaryStream(%#x) succeeded for a PID that is not added", i, pid)
			}
			if idx >= 0 {
				s.streams = append(s.streams[:idx:idx], s.streams[idx+1:]...)
			}
			s.dirty = true
			delete(s.lastCC, pid)
			s.Out.Probe("removed")
		} else {
			s.Out.Probe("remove-rejected")
			if idx >= 0 {
				s.v("C17", "remove-rejected", errClass(rec.Err), "call %d: RemoveElementaryStream(%#x) failed with %v although the stream is added", i, pid, rec.Err)
			}
		}
	case "setpcr":
		pid := s.resolve(op)
		rec.PID = pid
		if pid < 0 {
			rec.Skipped = true
			s.Out.Probe("skipped-unresolved")
			return rec
		}
		s.M.SetPCRPID(uint16(pid))
		log.Add("mux", "setpcr", i, pid)
		s.finish(rec)
		s.pcr = pid
		s.dirty = true
	case "tables":
		ok := s.tablesOK()
		rec.N, rec.Err = s.M.WriteTables()
		log.Add("mux", "tables", i, rec.N, errClass(rec.Err))
		s.finish(rec)
		s.checkCount(rec)
		if rec.Err == nil {
			if ok == 0 {
				s.v("C17", "tables-accepted-invalid", "", "call %d: WriteTables succeeded although the PCR PID %#x is not an added stream or the PMT (%d bytes) cannot fit one packet", i, s.pcr, s.refPMTSize())
			}
			s.observe(rec, 0, true)
			if len(rec.Pkts) != 2 && s.aligned(rec) {
				s.v("C17", "tables-shape", "", "call %d: WriteTables wrote %d packets, want PAT+PMT", i, len(rec.Pkts))
			}
			s.Out.Probe("tables-explicit")
		} else {
			s.Out.Probe("tables-rejected")
			if ok == 1 {
				s.v("C17", "tables-rejected", errClass(rec.Err), "call %d: WriteTables failed with %v although PCR PID %#x is added and the PMT fits", i, rec.Err, s.pcr)
			}
			s.rejectedWroteNothing(rec, "WriteTables")
			s.observe(rec, 0, false)
		}
	case "data":
		s.stepData(i, op, rec)
	case "packet":
		s.stepPacket(i, op, rec)
	case "churn":
		// expands into ordinary calls with synthetic handles; every one is checked like any other
		rec.Skipped = true
		start := len(s.Calls)
		base := 1000000 + i*100000
		for k := 0; k < op.N; k++ {
			h := base + 6*k
			pre := len(s.Out.Violations)
			a := s.Step(h, &MuxOp{Op: "add", H: -1, PID: 0, Type: op.Type})
			var t *CallRec
			if op.PID != 0 {
				// empty-Muxer variant: companion stream (for the PCR PID) added after the automatic
				// one and removed with it; if its PID happens to be taken, its neighbour is tried
				x := op.PID
				c := s.Step(h+1, &MuxOp{Op: "add", H: -1, PID: x, Type: 0x1b})
				if c.Err != nil {
					x ^= 1
					c = s.Step(h+1, &MuxOp{Op: "add", H: -1, PID: x, Type: 0x1b})
				}
				s.Step(h+2, &MuxOp{Op: "setpcr", H: h + 1, PID: x})
				t = s.Step(h+3, &MuxOp{Op: "tables", H: -1})
				s.Step(h+4, &MuxOp{Op: "remove", H: h})
				s.Step(h+5, &MuxOp{Op: "remove", H: h + 1})
				if c.Err != nil {
					t.Err = c.Err
				}
			} else {
				t = s.Step(h+1, &MuxOp{Op: "tables", H: -1})
				if k >= op.Keep {
					s.Step(h+2, &MuxOp{Op: "remove", H: h})
				}
			}
			// the records of a long churn are not kept (memory); its violations are
			if len(s.Calls)-start > 64 {
				s.Calls = append(s.Calls[:start:start], s.Calls[len(s.Calls)-8:]...)
			}
			if a.Err != nil || t.Err != nil || len(s.Out.Violations) > pre {
				s.Out.Probe("churn-stopped")
				break
			}
			if k == op.N-1 {
				s.Out.Probe("churn-completed")
			}
		}
	}
	return rec
}

// finish decodes what the call put on the writer.
func (s *MuxSim) finish(rec *CallRec) {
	rec.Off1 = s.W.Accepted()
	rec.W1 = len(s.W.Calls)
	n := rec.Off1 - rec.Off0
	if n == 0 {
		return
	}
	if n%refts.PacketSize != 0 || rec.Off0%refts.PacketSize != 0 {
		s.Broken = true
		s.v("C04", "partial-packet", rec.Op.Op, "call %d (%s): writer holds %d bytes after the call (%d written by it): not a whole number of 188-byte packets; err=%v", rec.I, rec.Op.Op, rec.Off1, n, rec.Err)
		return
	}
	raw, _ := refts.SplitPackets(s.W.Buf[rec.Off0:rec.Off1])
	for k, b := range raw {
		p, err := refts.DecodePacket(b)
		if err != nil {
			s.v("C04", "undecodable-packet", rec.Op.Op, "call %d (%s): packet %d of the call is not decodable by the reference decoder: %v (% x …)", rec.I, rec.Op.Op, k, err, b[:8])
			// keep the per-PID bookkeeping of the other oracles going on what can be read
			if p = refts.DecodeLenient(b); p == nil || b[0] != 0x47 {
				s.Broken = true
				rec.Pkts, rec.Raw = nil, nil
				return
			}
		}
		rec.Pkts = append(rec.Pkts, p)
		rec.Raw = append(rec.Raw, b)
		s.Out.Packets++
	}
	if op := rec.Op.Op; op == "add" || op == "remove" || op == "setpcr" {
		s.v("C04", "unexpected-output", op, "call %d (%s) wrote %d bytes", rec.I, op, n)
	}
}

func (s *MuxSim) aligned(rec *CallRec) bool {
	return (rec.Off1-rec.Off0)%refts.PacketSize == 0 && (rec.Off1 == rec.Off0 || rec.Pkts != nil)
}

func (s *MuxSim) checkCount(rec *CallRec) {
	if rec.N != rec.Off1-rec.Off0 {
		s.v("C04", "count-mismatch", rec.Op.Op, "call %d (%s): returned n=%d but the writer accepted %d bytes during the call (err=%v)", rec.I, rec.Op.Op, rec.N, rec.Off1-rec.Off0, rec.Err)
	}
}

func (s *MuxSim) rejectedWroteNothing(rec *CallRec, what string) {
	if rec.Off1 != rec.Off0 {
		s.v("C04", "rejected-call-wrote", what, "call %d: %s returned %v after writing %d bytes", rec.I, what, rec.Err, rec.Off1-rec.Off0)
	}
}

// cc checks the continuity rule for one packet on a tracked PID.
func (s *MuxSim) cc(rec *CallRec, p *refts.Pkt) {
	pid := int(p.PID)
	last, ok := s.lastCC[pid]
	if p.HasPayload() {
		if ok && int(p.CC) != (last+1)&15 {
			s.v("C05", "cc-gap", pidClass(s, pid), "call %d (%s): PID %#x continuity_counter %d follows %d on consecutive payload packets", rec.I, rec.Op.Op, pid, p.CC, last)
		}
		if ok && last == 15 && p.CC == 0 {
			s.Out.Probe("cc-wrap-" + pidClass(s, pid))
		}
		s.lastCC[pid] = int(p.CC)
	} else if ok && int(p.CC) != last {
		s.v("C05", "cc-afonly", pidClass(s, pid), "call %d (%s): PID %#x adaptation-only packet has continuity_counter %d, previous payload packet had %d", rec.I, rec.Op.Op, pid, p.CC, last)
	}
}

func pidClass(s *MuxSim, pid int) string {
	switch {
	case pid == 0:
		return "pat"
	case pid == s.pmtPID:
		return "pmt"
	}
	return "es"
}

// observe processes the table packets of a call starting at packet index from. When expect is
// true a PAT+PMT pair must be there. It returns the number of packets consumed.
func (s *MuxSim) observe(rec *CallRec, from int, expect bool) int {
	if rec.Pkts == nil || len(rec.Pkts) <= from || rec.Pkts[from].PID != 0 {
		if expect && s.aligned(rec) {
			s.v("C17", "tables-missing", rec.Op.Op, "call %d (%s): a PAT/PMT pair is due but the output of the call does not start with a PAT", rec.I, rec.Op.Op)
		}
		return 0
	}
	rec.Tables = true
	pat := rec.Pkts[from]
	s.cc(rec, pat)
	sec := s.psiPacket(rec, pat, "PAT")
	if sec != nil {
		if t, err := refts.ParsePAT(sec); err != nil {
			s.v("C04", "psi-malformed", "PAT", "call %d: %v", rec.I, err)
		} else {
			if len(t.Programs) != 1 || t.Programs[0].Number != 1 {
				s.v("C17", "pat-content", "", "call %d: PAT programs %+v, want exactly program 1", rec.I, t.Programs)
			}
			if len(t.Programs) >= 1 {
				pp := int(t.Programs[0].PID)
				if s.pmtPID >= 0 && pp != s.pmtPID {
					s.v("C17", "pat-content", "pmt-pid-changed", "call %d: PAT maps program to PID %#x, earlier %#x", rec.I, pp, s.pmtPID)
				}
				s.pmtPID = pp
			}
			if s.patVer >= 0 && int(sec.Version) != s.patVer && !s.dirty {
				s.v("C17", "version-rule", "pat", "call %d: PAT version %d -> %d without any change", rec.I, s.patVer, sec.Version)
			}
			s.patVer = int(sec.Version)
		}
	}
	if len(rec.Pkts) <= from+1 || int(rec.Pkts[from+1].PID) != s.pmtPID {
		s.v("C17", "tables-shape", "no-pmt", "call %d (%s): PAT is not followed by a PMT packet on PID %#x", rec.I, rec.Op.Op, s.pmtPID)
		return 1
	}
	pmt := rec.Pkts[from+1]
	s.cc(rec, pmt)
	sec = s.psiPacket(rec, pmt, "PMT")
	if sec != nil {
		t, err := refts.ParsePMT(sec)
		if err != nil {
			s.v("C04", "psi-malformed", "PMT", "call %d: %v", rec.I, err)
		} else {
			s.comparePMT(rec, t)
			if s.pmtVer >= 0 {
				want := s.pmtVer
				if s.dirty {
					want = (s.pmtVer + 1) & 31
				}
				if int(sec.Version) != want {
					s.v("C17", "version-rule", fmt.Sprintf("dirty=%v", s.dirty), "call %d: PMT version %d -> %d, want %d (content changed since last emission: %v)", rec.I, s.pmtVer, sec.Version, want, s.dirty)
				}
				if s.dirty && s.pmtVer == 31 {
					s.Out.Probe("version-wrap")
				}
			}
			s.pmtVer = int(sec.Version)
			if !sec.Current {
				s.v("C17", "pmt-content", "not-current", "call %d: PMT current_next_indicator is 0", rec.I)
			}
		}
	}
	s.dirty = false
	s.snapshotModel(rec)
	return 2
}

// psiPacket checks the C04 structure of a table packet and returns its single section.
func (s *MuxSim) psiPacket(rec *CallRec, p *refts.Pkt, what string) *refts.Parsed {
	if !p.PUSI || !p.HasPayload() {
		s.v("C04", "psi-malformed", what, "call %d: %s packet without payload_unit_start_indicator/payload", rec.I, what)
		return nil
	}
	secs, err := refts.Frame(p.Payload)
	if err != nil || len(secs) != 1 || !secs[0].Complete {
		s.v("C04", "psi-malformed", what, "call %d: %s packet does not hold exactly one complete section after its pointer_field (err=%v, sections=%d)", rec.I, what, err, len(secs))
		return nil
	}
	for _, b := range p.Payload[secs[0].End:] {
		if b != 0xff {
			s.v("C04", "psi-malformed", what+"-trailer", "call %d: %s packet has non-0xFF bytes after its section", rec.I, what)
			break
		}
	}
	sec, err := refts.ParseLong(p.Payload[secs[0].Start:secs[0].End])
	if err != nil {
		s.v("C04", "psi-malformed", what, "call %d: %s: %v", rec.I, what, err)
		return nil
	}
	return sec
}

func (s *MuxSim) comparePMT(rec *CallRec, t *refts.PMT) {
	if t.Program != 1 {
		s.v("C17", "pmt-content", "program", "call %d: PMT program_number %d, want 1", rec.I, t.Program)
	}
	if s.pcr >= 0 && int(t.PCRPID) != s.pcr {
		s.v("C17", "pmt-content", "pcr", "call %d: PMT PCR_PID %#x, model %#x", rec.I, t.PCRPID, s.pcr)
	}
	if len(t.Streams) != len(s.streams) {
		s.v("C17", "pmt-content", "stream-count", "call %d: PMT lists %d streams, %d are added", rec.I, len(t.Streams), len(s.streams))
		return
	}
	for k, st := range s.streams {
		g := t.Streams[k]
		if st.pid < 0 {
			// learn the automatic PID
			pid := int(g.PID)
			bad := ""
			switch {
			case pid <= 0x1f:
				bad = "reserved"
			case pid == 0x1fff:
				bad = "null"
			case pid == s.pmtPID:
				bad = "pmt-pid"
			case s.find(pid) >= 0:
				bad = "duplicate"
			}
			if bad != "" {
				s.v("C17", "auto-pid", bad, "call %d: automatically assigned PID %#x is %s", rec.I, pid, bad)
			}
			st.pid = pid
			s.PIDOf[st.h] = pid
			s.Out.Probe("auto-pid-learned")
		} else if int(g.PID) != st.pid {
			s.v("C17", "pmt-content", "pid", "call %d: PMT entry %d has PID %#x, model (insertion order) %#x", rec.I, k, g.PID, st.pid)
		}
		if g.Type != st.typ {
			s.v("C17", "pmt-content", "type", "call %d: PMT entry %d (PID %#x) stream_type %#x, want %#x", rec.I, k, g.PID, g.Type, st.typ)
		}
		want := RefDescs(st.descs)
		if !descsEqual(g.Descs, want) {
			s.v("C17", "pmt-content", "descriptors", "call %d: PMT entry %d (PID %#x) descriptors %v, want %v", rec.I, k, g.PID, g.Descs, want)
		}
	}
	if len(t.ProgDescs) != 0 {
		s.v("C17", "pmt-content", "program-descriptors", "call %d: unexpected program descriptors", rec.I)
	}
}

func descsEqual(a, b []refts.Desc) bool {
	if len(a) != len(b) {
		return false
	}
	for i := range a {
		if a[i].Tag != b[i].Tag || !bytes.Equal(a[i].Data, b[i].Data) {
			return false
		}
	}
	return true
}

func (s *MuxSim) snapshotModel(rec *CallRec) {
	if rec.ModelStreams != nil {
		return
	}
	rec.ModelStreams = []mStream{}
	for _, st := range s.streams {
		rec.ModelStreams = append(rec.ModelStreams, *st)
	}
	rec.ModelPCR = s.pcr
}

func (s *MuxSim) stepData(i int, op *MuxOp, rec *CallRec) {
	pid := s.resolve(op)
	rec.PID = pid
	if pid < 0 {
		rec.Skipped = true
		s.Out.Probe("skipped-unresolved")
		return
	}
	pes := &astits.PESData{Data: Payload(op.Tag, op.Len)}
	spec := PESSpec{}
	if op.PES != nil {
		spec = *op.PES
	}
	pes.Header = spec.ToAstits()
	d := &astits.MuxerData{PID: uint16(pid), AdaptationField: AFToAstits(op.AF), PES: pes}
	rec.Data = d
	rec.Payload = Payload(op.Tag, op.Len)
	known := s.find(pid) >= 0
	ok := s.tablesOK()
	rec.N, rec.Err = s.M.WriteData(d)
	s.Out.Log.Add("mux", "data", i, pid, op.Len, rec.N, errClass(rec.Err))
	s.finish(rec)
	s.checkCount(rec)
	if !bytes.Equal(pes.Data, rec.Payload) {
		s.v("C16", "caller-payload-modified", "", "call %d: WriteData modified the caller's payload bytes", i)
	}
	if spec.NilOpt && pes.Header.OptionalHeader != nil {
		// The library filled in the header struct of the caller, who goes on using it: whatever it
		// put there belongs to this call alone.
		*pes.Header.OptionalHeader = astits.PESOptionalHeader{MarkerBits: 2, PTSDTSIndicator: astits.PTSDTSIndicatorOnlyPTS, PTS: &astits.ClockReference{Base: int64(0x15555 + i)}, DataAlignmentIndicator: true}
		s.Out.Probe("installed-header-reused-by-caller")
	}
	if !known {
		s.sinceHi++
		s.Out.Probe("data-unknown-pid")
		if rec.Err == nil {
			if !s.unlearned() {
				s.v("C17", "data-unknown-accepted", "", "call %d: WriteData on PID %#x succeeded although no such stream is added", i, pid)
			}
		} else {
			s.rejectedWroteNothing(rec, "WriteData(unknown PID)")
		}
		return
	}
	afSize := 0
	if op.AF != nil {
		afSize = op.AF.Size()
	}
	afFits := 4+afSize <= refts.PacketSize
	if !afFits {
		s.Out.Probe("af-larger-than-packet")
	}
	// A call rejected for an invalid argument may or may not count as one of the "WriteData
	// calls since the last emission": the property does not say, so both readings are accepted
	// (sinceLo = calls that certainly count, sinceHi = calls that possibly count).
	invalidArg := !afFits && rec.Err != nil
	// A unit without payload bytes: whether it is written at all (nothing, a header-only PES,
	// an error) and whether it counts towards the period is not fixed by the properties; what is
	// written must obey the packet rules like everything else.
	empty := op.Len == 0
	if empty {
		s.Out.Probe("data-empty-payload")
	}
	s.sinceHi++
	if !invalidArg && !empty {
		s.sinceLo++
	}
	force := op.AF != nil && op.AF.RAI && pid == s.pcr
	must := !invalidArg && !empty && (force || s.sinceLo >= s.Period)
	may := force || s.sinceHi >= s.Period
	if force {
		s.Out.Probe("rai-forced")
	}
	used := s.observe(rec, 0, false)
	if rec.Tables {
		if !may {
			s.v("C17", "tables-spurious", "", "call %d: PAT/PMT emitted by WriteData although only %d..%d of %d calls have passed since the last automatic emission and no RAI on the PCR PID", i, s.sinceLo, s.sinceHi, s.Period)
		}
		s.sinceLo, s.sinceHi = 0, 0
		s.Out.Probe("tables-auto")
	}
	if rec.Err != nil {
		// Rejected: tables due but impossible, or an adaptation field no packet can hold.
		s.Out.Probe("data-rejected")
		expected := (may && ok != 1) || !afFits || empty
		if !expected {
			s.v("C17", "data-rejected", errClass(rec.Err), "call %d: WriteData(PID %#x, %d bytes) failed with %v; tables due=%v possible=%d", i, pid, op.Len, rec.Err, must, ok)
		}
		if s.aligned(rec) && len(rec.Pkts) > used {
			s.v("C04", "rejected-call-wrote", "WriteData", "call %d: WriteData returned %v after writing %d elementary-stream packets", i, rec.Err, len(rec.Pkts)-used)
		}
		return
	}
	// success
	if must && !rec.Tables && s.aligned(rec) {
		if ok == 0 {
			s.v("C17", "tables-due-skipped", "", "call %d: WriteData succeeded without emitting the due PAT/PMT (which cannot be generated: PCR PID %#x, PMT %d bytes)", i, s.pcr, s.refPMTSize())
		} else {
			s.v("C17", "tables-missing", "data", "call %d: %d WriteData calls since the last automatic emission (period %d, forced=%v) but no PAT/PMT precedes the unit", i, s.sinceLo, s.Period, force)
		}
	}
	if !afFits {
		s.v("C04", "oversize-af-accepted", "", "call %d: WriteData accepted an adaptation field of %d bytes that no packet can hold", i, afSize)
		return
	}
	if !s.aligned(rec) {
		return
	}
	s.snapshotModel(rec)
	es := rec.Pkts[used:]
	if len(es) == 0 {
		if !empty {
			s.v("C04", "no-output", "", "call %d: WriteData(%d bytes) succeeded without writing any elementary-stream packet", i, op.Len)
		}
		return
	}
	started := false
	total := 0
	for k, p := range es {
		if int(p.PID) != pid {
			s.v("C04", "foreign-packet", "", "call %d: packet %d of WriteData(PID %#x) is on PID %#x", i, k, pid, p.PID)
			continue
		}
		s.cc(rec, p)
		if !p.HasPayload() {
			s.Out.Probe("af-only-packet")
			if started || p.PUSI {
				s.v("C04", "pusi-placement", "af-only", "call %d: adaptation-only packet %d after the unit started or flagged PUSI", i, k)
			}
			continue
		}
		total += len(p.Payload)
		if !started {
			started = true
			if !p.PUSI {
				s.v("C04", "pusi-placement", "first", "call %d: first payload packet of the unit lacks payload_unit_start_indicator", i)
			}
			if len(p.Payload) < 6 || p.Payload[0] != 0 || p.Payload[1] != 0 || p.Payload[2] != 1 {
				s.v("C04", "pes-start-code", "", "call %d: PUSI packet payload does not begin with the PES start code: % x", i, p.Payload[:min(6, len(p.Payload))])
			}
		} else if p.PUSI {
			s.v("C04", "pusi-placement", "later", "call %d: packet %d of the unit carries payload_unit_start_indicator again", i, k)
		}
	}
	if total < op.Len+6 && (!empty || started) {
		s.v("C04", "payload-short", "", "call %d: %d payload bytes on the wire for a %d-byte PES payload plus header", i, total, op.Len)
	}
	if len(es) > 16 {
		s.Out.Probe("unit>16-packets")
	}
}

func (s *MuxSim) stepPacket(i int, op *MuxOp, rec *CallRec) {
	ps := op.Pkt
	rec.PID = int(ps.PID)
	pk := ps.ToAstits()
	rec.N, rec.Err = s.M.WritePacket(pk)
	s.Out.Log.Add("mux", "packet", i, ps.PID, rec.N, errClass(rec.Err))
	s.finish(rec)
	s.checkCount(rec)
	size := 4 + ps.AF.Size()
	if ps.HasPayload {
		size += ps.PayloadLen
	}
	fits := size <= refts.PacketSize
	// a stale Payload slice on a packet flagged as carrying none: rejecting it when it would not
	// fit is as acceptable as ignoring it
	staleOversize := !ps.HasPayload && size+ps.Stale > refts.PacketSize
	if rec.Err != nil {
		s.Out.Probe("packet-rejected")
		s.rejectedWroteNothing(rec, "WritePacket")
		if fits && !staleOversize && ps.Wide&0xe000 == 0 {
			s.v("C04", "packet-rejected", "", "call %d: WritePacket failed with %v for a packet of %d bytes", i, rec.Err, size)
		}
		return
	}
	if !fits {
		s.v("C04", "oversize-packet-accepted", "", "call %d: WritePacket accepted a packet needing %d bytes", i, size)
		return
	}
	if !s.aligned(rec) {
		return
	}
	if len(rec.Pkts) != 1 {
		s.v("C04", "packet-shape", "", "call %d: WritePacket wrote %d packets", i, len(rec.Pkts))
		return
	}
	g := rec.Pkts[0]
	if g.PID != ps.PID || g.CC != ps.CC&15 || g.PUSI != ps.PUSI || g.Prio != ps.Prio || g.TSC != ps.TSC&3 || g.HasPayload() != ps.HasPayload || g.HasAF() != (ps.AF != nil) {
		s.v("C04", "packet-header", "", "call %d: WritePacket header on the wire %+v differs from the argument %+v", i, *g, *ps)
	}
	if ps.HasPayload && !bytes.HasPrefix(g.Payload, Payload(ps.Tag, ps.PayloadLen)) {
		s.v("C04", "packet-payload", "", "call %d: WritePacket payload on the wire differs from the argument", i)
	}
	if ps.AF != nil && g.AF != nil {
		w, _ := refts.DecodeAF(refts.EncodeAF(ps.AF))
		if w != nil {
			w.Length, w.Stuffing = 0, 0
			c := *g.AF
			c.Length, c.Stuffing = 0, 0
			if core.Dump(&c) != core.Dump(w) {
				s.v("C04", "packet-af", "", "call %d: WritePacket adaptation field on the wire %s differs from the argument %s", i, core.Dump(&c), core.Dump(w))
			}
		}
	}
}
