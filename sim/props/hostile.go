package props

import (
	"encoding/json"
	"errors"
	"fmt"

	"verif/sim/core"
	"verif/sim/refts"
	"verif/sim/world"

	astits "github.com/asticode/go-astits"
)

// HostileScenario: arbitrary bytes in, termination out (engine `hostile-reader`, C03).
type HostileScenario struct {
	Input   []byte           `json:"input"`
	Size    int              `json:"size"` // packet size option (0 = auto-detect)
	Reader  world.ReaderPlan `json:"reader"`
	API     string           `json:"api"` // packet | data | mixed
	Skipper bool             `json:"skipper,omitempty"`
	Parser  bool             `json:"parser,omitempty"`
	// TruncEnum: additionally check, for a stride of truncation offsets k, that in[:k] behaves
	// like in[:k - k mod size] (explicit size only).
	TruncEnum   bool   `json:"trunc_enum,omitempty"`
	TruncStride int    `json:"trunc_stride,omitempty"`
	Origin      string `json:"origin,omitempty"` // how the input was made (informational)
	// RewindAt > 0 (seekable readers): Rewind is called once before that call; everything C03
	// promises must hold for the calls that follow as well (the bound on calls starts again)
	RewindAt int `json:"rewind_at,omitempty"`
}

type hostile struct{}

func init() { core.Register(hostile{}) }

func (hostile) Name() string    { return "hostile-reader" }
func (hostile) Props() []string { return []string{"C03"} }
func (hostile) Runs(tier string) int64 {
	if tier == "thorough" {
		return 6000000
	}
	return 100000
}

func (hostile) Meta() core.EngineMeta {
	return core.EngineMeta{
		Rule:        "Inputs: (a) random bytes with sync bytes planted at multiples of the packet size, at random places or nowhere, empty, one byte, shorter than the 193-byte detection window; (b) reference streams whose descriptors carry the 23 typed tags with arbitrary bodies of arbitrary length inside intact sections, and reference streams mutated at seeded positions and at targeted fields (section_length, adaptation_field_length, PES_packet_length and header_data_length, pointer_field, descriptor and loop lengths set to 0 / 0xFF / maximum), re-framed to 188+k; (c) structured streams truncated at a stride of offsets. Configurations: packet size in {auto, 188, 192, 204, 189, 300}, reader in {seekable, bufio, plain} with seeded chunk plans, API in {NextPacket, NextData, alternating}, with and without skipper / observing parser. Invariants per run: no panic; every call returning an error other than ErrNoMorePackets consumed input (non-bufio readers); ErrNoMorePackets within len(input)+16 calls and again on each of the next 8 calls; explicit size: the results for in[:k] equal those for in[:k - k mod size]. A run that exceeds the 20 s supervisor is a violation of class hang. distinct = (origin class, size option, reader kind, API, callbacks, result-shape class: counts of data/errors bucketed); non-trivial = the input is non-empty and at least one call returned an error or data. Reader kinds: seekable, bufio.Reader, plain, and a reader that can Peek without being a *bufio.Reader (bufio.ReadWriter). With a seekable reader one run in five calls Rewind once in the middle; everything must hold for the calls that follow.",
		Real:        []string{"astits.Demuxer and everything below it", "bufio.Reader"},
		Stub:        []string{"SimReader", "refts reference multiplexer (structured inputs)", "mutation operators", "per-run supervisor (hang detection)"},
		FaultKinds:  []string{"random-bytes", "mutated-stream", "targeted-length-field", "truncated-stream", "empty-or-tiny", "auto-detect", "size>188", "bufio", "plain", "bufio-rw", "skipper", "parser"},
		Assumptions: []string{"the call bound len(input)+16 follows from: every non-final call consumes at least one byte of input or pops one already parsed section"},
		Levels:      map[string]string{"C03": "exploration"},
	}
}

func (hostile) Decode(raw json.RawMessage) (any, error) {
	var sc HostileScenario
	err := json.Unmarshal(raw, &sc)
	return &sc, err
}

var hostileSizes = []int{0, 0, 188, 188, 192, 204, 189, 300}

func (hostile) Generate(r *core.PRNG, tier string, idx int64) any {
	sc := &HostileScenario{}
	sc.Size = hostileSizes[r.Intn(len(hostileSizes))]
	eff := sc.Size
	if eff == 0 {
		eff = []int{188, 188, 192, 204}[r.Intn(4)]
	}
	switch r.Pick(3, 5, 1, 1) {
	case 0: // random bytes
		sc.Origin = "random"
		n := []int{0, 1, 2, 187, 188, 189, 192, 193, 194, 375, 376, 377}[r.Intn(12)]
		if r.Chance(2, 3) {
			n = r.Range(0, 6*eff+7)
		}
		sc.Input = r.Bytes(n)
		switch r.Pick(3, 2, 1) {
		case 0:
			for i := 0; i < n; i += eff {
				sc.Input[i] = 0x47
			}
		case 1:
			for i := 0; i < n; i += r.Range(1, 2*eff) {
				sc.Input[i] = 0x47
			}
		}
		if n < 193 {
			sc.Origin = "tiny"
		}
	case 1, 2: // structured, then mutated
		sc.Origin = "mutated"
		cfg := genStreamCfg(r)
		cfg.Straddle = r.Chance(1, 6)
		cfg.UnitsMin, cfg.UnitsMax = 1, r.Range(1, 3)
		cfg.BigPSI, cfg.BigPES = r.Chance(1, 8), false
		cfg.MaxPES = 400
		cfg.TypedGarbage = r.Chance(1, 2)
		if cfg.TypedGarbage {
			cfg.SI = true
			if cfg.PMT == 0 {
				cfg.PMT = 1
			}
		}
		m := GenModel(r, cfg)
		b, err := m.Build()
		if err != nil || len(b.Packets) == 0 {
			sc.Input = r.Bytes(400)
			break
		}
		pk := make([][]byte, len(b.Packets))
		for i := range pk {
			pk[i] = append([]byte{}, b.Packets[i]...)
		}
		nm := r.Pick(1, 4, 3, 2)
		if cfg.TypedGarbage && r.Bool() {
			nm = 0 // intact framing and CRCs: only the descriptor bodies are hostile
			sc.Origin = "typed-descriptors"
		}
		for k := 0; k < nm; k++ {
			p := pk[r.Intn(len(pk))]
			switch r.Pick(4, 3, 3) {
			case 0: // random byte
				p[r.Intn(188)] = byte(r.Intn(256))
			case 1: // a length-like field near the start of the payload / header
				pos := []int{3, 4, 5, 6, 7, 8, 9, 10, 11, 12, 13, 14, 15, 16}[r.Intn(14)]
				p[pos] = []byte{0, 0xff, 0x7f, 0x80, 0xb7, 0xb8, 1, 0xf0, 0x0f}[r.Intn(9)]
				sc.Origin = "targeted"
			default: // any byte set to an extreme
				p[r.Intn(188)] = []byte{0, 0xff, 0x7f, 0x80}[r.Intn(4)]
				sc.Origin = "targeted"
			}
		}
		if r.Chance(1, 5) {
			// header flags of whole packets: transport_error_indicator, no payload, payload_unit_start
			// - preferably on the last packet of a PID or of the stream
			lastOf := map[uint16]int{}
			for i, mt := range b.Meta {
				lastOf[mt.PID] = i
			}
			for n := r.Range(1, 3); n > 0; n-- {
				i := r.Intn(len(pk))
				switch r.Intn(3) {
				case 0:
					i = len(pk) - 1
				case 1:
					i = lastOf[b.Meta[r.Intn(len(b.Meta))].PID]
				}
				switch r.Pick(3, 1, 1) {
				case 0:
					pk[i][1] |= 0x80
				case 1:
					pk[i][3] &^= 0x10
				default:
					pk[i][1] ^= 0x40
				}
			}
			if sc.Origin == "mutated" {
				sc.Origin = "targeted"
			}
		}
		k := eff - 188
		sc.Input = reframe(pk, k)
		if r.Chance(1, 4) {
			sc.Input = sc.Input[:r.Intn(len(sc.Input)+1)]
			sc.Origin = "truncated"
		}
	default: // truncation sweep of an intact structured stream
		sc.Origin = "truncated"
		cfg := genStreamCfg(r)
		cfg.Straddle, cfg.BigPSI, cfg.BigPES = false, false, false
		cfg.UnitsMin, cfg.UnitsMax = 1, 2
		cfg.MaxPES = 300
		if cfg.ES > 2 {
			cfg.ES = 2
		}
		m := GenModel(r, cfg)
		b, err := m.Build()
		if err != nil {
			sc.Input = r.Bytes(400)
			break
		}
		if sc.Size == 0 {
			sc.Size = eff
		}
		sc.Input = reframe(b.Packets, sc.Size-188)
		sc.TruncEnum = true
		sc.TruncStride = len(sc.Input)/60 + 1
	}
	sc.Reader = genReaderPlan(r, []string{"seekable", "bufio", "plain", "seekable", "bufio", "plain", "bufio-rw"})
	if sc.Reader.Kind == "bufio-rw" {
		sc.Reader.BufioSize = []int{256, 1024, 4096}[r.Intn(3)]
	}
	sc.API = []string{"packet", "data", "data", "mixed"}[r.Intn(4)]
	sc.Skipper = r.Chance(1, 6)
	sc.Parser = r.Chance(1, 6)
	if sc.Reader.Kind == "seekable" && r.Chance(1, 5) {
		sc.RewindAt = r.Range(1, 30)
	}
	return sc
}

type hostileRun struct {
	keys    []string
	calls   int
	ended   bool
	sticky  bool // ErrNoMorePackets repeated on the 8 following calls
	noProg  int  // index of the first error-returning call that consumed nothing (-1 none)
	nData   int
	nErr    int
	lastErr error
}

func hostileOnce(input []byte, sc *HostileScenario, log *core.Log) hostileRun {
	rd, sr := world.NewReader(input, sc.Reader, log)
	var extra []func(*astits.Demuxer)
	if sc.Skipper {
		extra = append(extra, astits.DemuxerOptPacketSkipper(func(p *astits.Packet) bool { return p.Header.ContinuityCounter%5 == 3 }))
	}
	if sc.Parser {
		extra = append(extra, astits.DemuxerOptPacketsParser(func(ps []*astits.Packet) ([]*astits.DemuxerData, bool, error) { return nil, false, nil }))
	}
	dmx := newDemuxer(rd, DemuxCfg{PacketSize: sc.Size, Reader: sc.Reader}, extra...)
	hr := hostileRun{noProg: -1}
	bound := len(input) + 16
	if sc.API == "mixed" {
		bound *= 2 // every other call is a NextPacket that may already report the end
	}
	next := func(i int) (string, error, bool) {
		api := sc.API
		if api == "mixed" {
			api = []string{"data", "packet"}[i%2]
		}
		if api == "packet" {
			p, err := dmx.NextPacket()
			if p != nil {
				return core.Dump(p), err, true
			}
			return "", err, false
		}
		d, err := dmx.NextData()
		if d != nil {
			return core.Dump(d), err, true
		}
		return "", err, false
	}
	for i := 0; i < bound; i++ {
		if sc.RewindAt > 0 && i == sc.RewindAt && sc.Reader.Kind == "seekable" && len(input) == len(sc.Input) {
			if _, rerr := dmx.Rewind(); rerr == nil {
				bound += i + len(input) + 16
				if sc.API == "mixed" {
					bound += len(input) + 16
				}
				log.Add("demux", "rewind")
			}
		}
		pos0, pulled0 := sr.Pos(), sr.Pulled
		k, err, isData := next(i)
		hr.calls++
		if isData {
			hr.nData++
			hr.keys = append(hr.keys, k)
			log.Add("demux", "result", "data")
			continue
		}
		if errors.Is(err, astits.ErrNoMorePackets) {
			// Alternating APIs: NextPacket reports the end of the input while assembled units are
			// still pending; they are handed out by the following NextData calls. The end of the
			// run is the first ErrNoMorePackets of NextData.
			if sc.API == "mixed" && i%2 == 1 {
				log.Add("demux", "result", "packet-end")
				continue
			}
			hr.ended = true
			log.Add("demux", "result", "end")
			break
		}
		hr.nErr++
		hr.lastErr = err
		hr.keys = append(hr.keys, "ERR")
		log.Add("demux", "result", "err")
		if sr.Pos() == pos0 && sr.Pulled == pulled0 && hr.noProg < 0 && sc.Reader.Kind != "bufio" && sc.Reader.Kind != "bufio-rw" {
			hr.noProg = i
		}
	}
	if hr.ended {
		hr.sticky = true
		for i := 0; i < 8; i++ {
			_, err, isData := next(hr.calls + i)
			if isData || !errors.Is(err, astits.ErrNoMorePackets) {
				hr.sticky = false
			}
		}
	}
	return hr
}

func bucket(n int) string {
	switch {
	case n == 0:
		return "0"
	case n == 1:
		return "1"
	case n < 5:
		return "few"
	}
	return "many"
}

func (hostile) Execute(scAny any, keepLog bool) *core.Outcome {
	sc := scAny.(*HostileScenario)
	out := core.NewOutcome()
	out.Log = core.NewLog(keepLog)
	if sc.Size != 0 && sc.Size < 188 {
		sc.Size = 188
	}
	if sc.Reader.Kind == "bufio" && sc.Reader.BufioSize < 256 {
		sc.Reader.BufioSize = 256
	}
	out.Evals++
	out.Packets = int64(len(sc.Input) / 188)
	switch sc.Origin {
	case "random":
		out.Fire("random-bytes")
	case "tiny":
		out.Fire("empty-or-tiny")
	case "mutated":
		out.Fire("mutated-stream")
	case "targeted":
		out.Fire("targeted-length-field")
	case "truncated":
		out.Fire("truncated-stream")
	case "typed-descriptors":
		out.Fire("typed-garbage-descriptors")
	}
	if sc.Size == 0 {
		out.Fire("auto-detect")
	} else if sc.Size > 188 {
		out.Fire("size>188")
	}
	if sc.Reader.Kind != "seekable" {
		out.Fire(sc.Reader.Kind)
	}
	if sc.Skipper {
		out.Fire("skipper")
	}
	if sc.Parser {
		out.Fire("parser")
	}
	cfgSig := fmt.Sprintf("%s/auto=%v/%s", sc.Reader.Kind, sc.Size == 0, sc.API)
	hr := hostileOnce(sc.Input, sc, out.Log)
	out.Steps = int64(hr.calls)
	if !hr.ended {
		out.Violate("C03", "no-termination", cfgSig, "input of %d bytes (%s), size option %d, %s reader, API %s: ErrNoMorePackets not reached within %d calls (%d data, %d errors; last error: %v)", len(sc.Input), sc.Origin, sc.Size, sc.Reader.Kind, sc.API, hr.calls, hr.nData, hr.nErr, hr.lastErr)
	} else if !hr.sticky {
		out.Violate("C03", "end-not-sticky", cfgSig, "after ErrNoMorePackets a later call returned something else (input %d bytes, size option %d)", len(sc.Input), sc.Size)
	}
	if hr.noProg >= 0 && hr.ended {
		// An error returned without reading is not a violation by itself (the end-of-stream drain
		// may report one per pending PID): the property bounds the number of calls, which the
		// no-termination class judges.
		out.Probe("error-without-reading")
	}
	if len(sc.Input) > 0 && (hr.nData > 0 || hr.nErr > 0) {
		out.FP(fmt.Sprintf("%s/%d/%s/%s/%v%v/d%s/e%s", sc.Origin, sc.Size, sc.Reader.Kind, sc.API, sc.Skipper, sc.Parser, bucket(hr.nData), bucket(hr.nErr)))
	}
	if sc.TruncEnum && sc.Size >= 188 && len(out.Violations) == 0 {
		st := sc.TruncStride
		if st < 1 {
			st = 1
		}
		cache := map[int][]string{}
		for k := 0; k <= len(sc.Input); k += st {
			out.Evals++
			a := hostileOnce(sc.Input[:k], sc, nil)
			fl := k - k%sc.Size
			bk, ok := cache[fl]
			if !ok {
				bb := hostileOnce(sc.Input[:fl], sc, nil)
				bk = bb.keys
				cache[fl] = bk
			}
			pre := len(out.Violations)
			if !a.ended {
				out.Violate("C03", "no-termination", cfgSig, "input truncated to %d bytes: ErrNoMorePackets not reached", k)
			} else if ok2, msg := seqEq(bk, a.keys); !ok2 {
				out.Violate("C03", "truncated-packet-not-end-of-stream", cfgSig, "input truncated to %d bytes (size %d) does not behave like its first %d bytes: %s", k, sc.Size, fl, msg)
			}
			if len(out.Violations) > pre {
				c := *sc
				c.Input, c.TruncEnum = sc.Input[:k], false
				out.Narrow(pre, &c)
				break
			}
		}
	}
	return out
}

func (hostile) Shrink(scAny any) []any {
	sc := scAny.(*HostileScenario)
	var out []any
	mk := func(f func(c *HostileScenario)) {
		c := *sc
		f(&c)
		out = append(out, &c)
	}
	n := len(sc.Input)
	if n > 0 {
		mk(func(c *HostileScenario) { c.Input = nil })
		for _, cut := range []int{n / 2, n - 188, n - 1} {
			if cut > 0 && cut < n {
				cut := cut
				mk(func(c *HostileScenario) { c.Input = sc.Input[:cut] })
				mk(func(c *HostileScenario) { c.Input = sc.Input[n-cut:] })
			}
		}
	}
	if len(sc.Reader.Chunks) > 0 || sc.Reader.EOFWithData {
		mk(func(c *HostileScenario) {
			c.Reader = world.ReaderPlan{Kind: sc.Reader.Kind, BufioSize: sc.Reader.BufioSize}
		})
	}
	if sc.Skipper {
		mk(func(c *HostileScenario) { c.Skipper = false })
	}
	if sc.Parser {
		mk(func(c *HostileScenario) { c.Parser = false })
	}
	if sc.API == "mixed" {
		mk(func(c *HostileScenario) { c.API = "data" })
	}
	if sc.TruncEnum {
		mk(func(c *HostileScenario) { c.TruncEnum = false })
	}
	return out
}

var _ = refts.PacketSize
