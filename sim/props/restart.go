package props

import (
	"context"
	"encoding/json"
	"fmt"

	"verif/sim/core"
	"verif/sim/refts"
	"verif/sim/world"

	astits "github.com/asticode/go-astits"
)

// RestartStep: pull N results with the given API, then Rewind.
type RestartStep struct {
	N   int    `json:"n"`
	API string `json:"api"` // data | packet | mixed
}

// RestartScenario: Rewind at arbitrary points of consumption (engine `restart`, C20).
type RestartScenario struct {
	Model *refts.Model  `json:"model"`
	Demux DemuxCfg      `json:"demux"`
	Enum  bool          `json:"enum,omitempty"` // Rewind after every number j of NextData calls, 0..total
	Steps []RestartStep `json:"steps,omitempty"`
	// Skipper (stateless kinds only) and Observe: options the Demuxer is created with; a fresh
	// Demuxer with the same options is the reference.
	Skipper *SkipSpec `json:"skipper,omitempty"`
	Observe bool      `json:"observe,omitempty"`
	K       int       `json:"k,omitempty"` // stream carried in 188+K byte packets (explicit size 188+K, or auto for K<=4)
	// AutoFail: 204-byte packets with auto-detection, which cannot succeed (no second sync byte in
	// the first 193 bytes): every call fails after consuming input; Rewind must still take the
	// reader back to 0 (the delivered sequence is not compared: outside the quantifier)
	AutoFail bool `json:"auto_fail,omitempty"`
}

type restart struct{}

func init() { core.Register(restart{}) }

func (restart) Name() string    { return "restart" }
func (restart) Props() []string { return []string{"C20"} }
func (restart) Runs(tier string) int64 {
	if tier == "thorough" {
		return 80000
	}
	return 1200
}

func (restart) Meta() core.EngineMeta {
	return core.EngineMeta{
		Rule:        "Reference streams (PAT before PMTs; multi-section PSI units so that parsed sections are buffered at some points; PES units longer than 16 packets; a crafted family in which one PID is mid-unit after exactly 16k packets while another PID returns a datum per packet, the only alignment at which a stale accumulator would continue the counter silently) are read by the real Demuxer on a seekable SimReader with a seeded chunk plan, explicit or auto-detected size, a quarter of them created with a stateless PacketSkipper and some with an observing PacketsParser (the fresh reference Demuxer gets the same options). Even run indices Rewind after EVERY number j of NextData calls (0..total; exhaustive per stream); odd indices run seeded scripts of repeated rewinds with NextPacket/NextData/mixed consumption, one in six of them a long history of 255 to 513 rewinds (a first pass that stops mid-stream - in the crafted family with exactly 16 or 32 packets of the long unit pending - then probe passes of zero to two NextData calls). After the last Rewind the complete sequence must equal a fresh Demuxer's. evaluations = rewind experiments; distinct = (state class at the rewind: mid-unit PIDs, buffered sections, counter alignment; API; size mode); non-trivial = the rewind happened after at least one call. One scenario in twelve carries the stream in 204-byte packets with auto-detection, which fails on every call after consuming input: there only Rewind's own promise (offset 0, no error, reader back at 0) is judged.",
		Real:        []string{"astits.Demuxer and everything below it"},
		Stub:        []string{"refts reference multiplexer", "SimReader (seekable, short reads per plan)"},
		FaultKinds:  []string{"rewind-mid-unit", "rewind-with-buffered-sections", "rewind-cc-aligned", "rewind-repeated", "rewind-256-times", "rewind-after-nextpacket", "rewind-auto-size"},
		Assumptions: []string{"streams whose PAT precedes their PMTs (the program map is deliberately kept across rewinds)"},
		Levels:      map[string]string{"C20": "fault_enumeration"},
	}
}

func (restart) Decode(raw json.RawMessage) (any, error) {
	var sc RestartScenario
	err := json.Unmarshal(raw, &sc)
	return &sc, err
}

// craftedAligned builds the stale-splice family: PID A carries one long PES (all 184-byte
// chunks), the PAT PID carries single-packet units, strictly alternating.
func craftedAligned(r *core.PRNG) *refts.Model {
	m := &refts.Model{}
	pat := &refts.PAT{Programs: []refts.PATProgram{{Number: 1, PID: 0x1000}}}
	np := r.Range(34, 50)
	ps := refts.Stream{PID: 0, Kind: "PAT", CC0: uint8(r.Intn(16))}
	for i := 0; i < np; i++ {
		p := *pat
		p.TSID = uint16(100 + i)
		u := refts.Unit{Tag: 100 + i, Sections: []refts.Section{{PAT: &p}}}
		u.Chunks = []int{len(u.Bytes())}
		ps.Units = append(ps.Units, u)
	}
	es := refts.Stream{PID: uint16(r.Range(0x100, 0x1f0)), Kind: "PES", CC0: uint8(r.Intn(16))}
	for k := 0; k < 2; k++ {
		u := refts.Unit{Tag: 900 + k, PES: &refts.PESHeader{StreamID: 0xe0, Unbounded: r.Bool(), HasPTS: true, PTS: uint64(r.Intn(1 << 30))}}
		hdr := len(refts.EncodePES(u.PES, nil))
		u.Len = r.Range(17, 24)*184 - hdr
		u.Chunks = plainChunks(hdr + u.Len)
		es.Units = append(es.Units, u)
	}
	m.Streams = []refts.Stream{ps, es}
	// first PAT unit, then strict alternation
	m.Merge = []int{0}
	for i := 0; i < 200; i++ {
		m.Merge = append(m.Merge, 1, 0)
	}
	return m
}

func (restart) Generate(r *core.PRNG, tier string, idx int64) any {
	sc := &RestartScenario{}
	if r.Chance(1, 4) {
		sc.Model = craftedAligned(r)
	} else {
		cfg := genStreamCfg(r)
		cfg.Straddle = false
		cfg.MultiSec = true
		cfg.UnitsMin, cfg.UnitsMax = 2, r.Range(2, 4)
		cfg.BigPES = r.Chance(1, 3)
		cfg.BigPSI = false
		if cfg.PMT == 0 {
			cfg.PMT = 1
		}
		sc.Model = GenModel(r, cfg)
	}
	sc.Demux.Reader = genReaderPlan(r, []string{"seekable"})
	sc.Demux.PacketSize = 188
	if r.Chance(1, 3) {
		sc.Demux.PacketSize = 0
	}
	if r.Chance(1, 4) {
		k := &SkipSpec{Kind: []string{"pid", "cc", "pusi", "has-af", "none"}[r.Intn(5)], CC: uint8(r.Intn(16))}
		if k.Kind == "pid" {
			k.PIDs = []uint16{sc.Model.Streams[r.Intn(len(sc.Model.Streams))].PID}
			if k.PIDs[0] == 0 {
				k.Kind = "cc" // keeping the PAT keeps the scenario in scope (PAT precedes PMTs)
			}
		}
		sc.Skipper = k
	}
	sc.Observe = r.Chance(1, 6)
	if r.Chance(1, 6) {
		sc.K = []int{4, 16, 2}[r.Intn(3)]
	}
	if r.Chance(1, 12) {
		sc.AutoFail, sc.K, sc.Demux.PacketSize = true, 16, 0
	}
	if idx%2 == 0 {
		sc.Enum = true
		return sc
	}
	if r.Chance(1, 5) {
		// Long histories: hundreds of rewinds on one Demuxer. The first pass stops somewhere in the
		// stream (in the crafted family after 17 or 33 NextData calls: exactly 16k packets of the
		// long unit are pending then), the following ones are probe passes that read nothing or
		// only the first data, the last one is compared with a fresh Demuxer. The counts sit
		// around 256 and 512.
		first := r.Intn(60)
		if r.Chance(1, 2) {
			sc.Model = craftedAligned(r)
			if r.Chance(3, 4) {
				first = 1 + 16*r.Range(1, 2)
			}
		}
		sc.Steps = append(sc.Steps, RestartStep{N: first, API: "data"})
		total := []int{256, 256, 512, 255, 257, 300, 513}[r.Intn(7)]
		probe := []int{0, 1, 1, 2}[r.Intn(4)]
		for i := 1; i < total; i++ {
			sc.Steps = append(sc.Steps, RestartStep{N: probe, API: "data"})
		}
		return sc
	}
	n := r.Range(1, 4)
	for i := 0; i < n; i++ {
		sc.Steps = append(sc.Steps, RestartStep{N: r.Intn(40), API: []string{"data", "data", "packet", "mixed"}[r.Intn(4)]})
	}
	return sc
}

func resKey(d *astits.DemuxerData, err error) string {
	if d != nil {
		return core.Dump(d)
	}
	return "ERR:" + errClass(err)
}

func (restart) Execute(scAny any, keepLog bool) *core.Outcome {
	sc := scAny.(*RestartScenario)
	out := core.NewOutcome()
	out.Log = core.NewLog(keepLog)
	b, err := sc.Model.Build()
	if err != nil || len(b.Packets) < 2 {
		out.Probe("model-unbuildable")
		return out
	}
	npk := len(b.Packets)
	out.Packets = int64(npk)
	k := sc.K
	if k < 0 || k > 64 {
		k = 0
	}
	data := reframe(b.Packets, k)
	cfg := sc.Demux
	if cfg.PacketSize != 0 || (k > 4 && !sc.AutoFail) {
		cfg.PacketSize = 188 + k
	}
	if sc.AutoFail {
		cfg.PacketSize = 0
		out.Probe("rewind-after-failed-detection")
	}
	cfg.Reader.Kind = "seekable"
	var nGroups int
	opts := func() []func(*astits.Demuxer) {
		var o []func(*astits.Demuxer)
		if k := sc.Skipper; k != nil && k.Kind != "seq" && k.Kind != "nth" {
			o = append(o, astits.DemuxerOptPacketSkipper(func(p *astits.Packet) bool {
				if p.Header.PID == 0 {
					return false // scope: the PAT precedes the PMTs, also in the filtered stream
				}
				rai, pcr := false, false
				if p.AdaptationField != nil {
					rai, pcr = p.AdaptationField.RandomAccessIndicator, p.AdaptationField.HasPCR
				}
				return k.decide(p.Header.PID, p.Header.ContinuityCounter, p.Header.PayloadUnitStartIndicator, p.Header.HasAdaptationField, rai, pcr, 0)
			}))
		}
		if sc.Observe {
			o = append(o, astits.DemuxerOptPacketsParser(func(ps []*astits.Packet) ([]*astits.DemuxerData, bool, error) {
				nGroups++
				return nil, false, nil
			}))
		}
		return o
	}
	if sc.Skipper != nil {
		out.Fire("rewind-with-skipper")
	}
	fresh, _ := DemuxData(data, cfg, nil, npk*4+16, opts()...)
	var want []string
	for _, r := range fresh {
		want = append(want, resKey(r.D, r.Err))
	}
	// state bookkeeping for fingerprints: after k fresh NextData calls, how many packets were consumed
	consumed := make([]int, len(fresh)+1)
	for ci, r := range fresh {
		consumed[ci+1] = r.Pos / (refts.PacketSize + k)
	}
	stateClass := func(j int) string {
		if j > len(fresh) {
			j = len(fresh)
		}
		n := consumed[j]
		if cfg.PacketSize == 0 && j == 0 {
			n = 0
		}
		if n > len(b.Meta) {
			n = len(b.Meta)
		}
		// per PID: mid-unit? counter alignment?
		type st struct {
			mid   bool
			count int
		}
		per := map[uint16]*st{}
		for i := 0; i < n; i++ {
			mt := b.Meta[i]
			s := per[mt.PID]
			if s == nil {
				s = &st{}
				per[mt.PID] = s
			}
			s.count++
			s.mid = mt.Index != mt.Count-1
		}
		mid, aligned := 0, false
		for pid, s := range per {
			early := pid == 0 || isPMTPID(sc.Model, pid)
			if s.mid || (!early && s.count > 0) {
				mid++
				if s.count%16 == 0 {
					aligned = true
				}
			}
		}
		cls := fmt.Sprintf("mid%d", min(mid, 3))
		if mid > 0 {
			out.Fire("rewind-mid-unit")
		}
		if aligned {
			cls += "+aligned"
			out.Fire("rewind-cc-aligned")
		}
		// buffered sections: the next fresh datum comes without consuming input
		if j > 0 && j < len(fresh) && fresh[j].Pos == fresh[j-1].Pos && fresh[j].D != nil {
			cls += "+buffered"
			out.Fire("rewind-with-buffered-sections")
		}
		return cls
	}
	if cfg.PacketSize == 0 {
		out.Fire("rewind-auto-size")
	}
	run := func(steps []RestartStep) {
		out.Evals++
		pre := len(out.Violations)
		r, sr := world.NewReader(data, cfg.Reader, out.Log)
		dmx := astits.NewDemuxer(context.Background(), r, demuxOpts(cfg, opts()...)...)
		fp := ""
		for si, s := range steps {
			nd := 0
			for k := 0; k < s.N; k++ {
				api := s.API
				if api == "mixed" {
					api = []string{"data", "packet"}[(k+si)%2]
				}
				var err error
				if api == "packet" {
					_, err = dmx.NextPacket()
					out.Fire("rewind-after-nextpacket")
				} else {
					_, err = dmx.NextData()
					nd++
				}
				if errClass(err) == "ErrNoMorePackets" {
					break
				}
			}
			if s.API == "data" && si == 0 {
				fp += stateClass(nd)
			} else {
				fp += s.API
			}
			n, err := dmx.Rewind()
			out.Log.Add("demux", "rewind", si, s.N, n, errClass(err))
			if n != 0 || err != nil {
				out.Violate("C20", "rewind-result", "", "Rewind after step %d returned (%d, %v), want (0, nil)", si, n, err)
			}
			if sr.Pos() != 0 {
				out.Violate("C20", "rewind-result", "reader-position", "after Rewind the reader is at offset %d", sr.Pos())
			}
			if si > 0 {
				out.Fire("rewind-repeated")
			}
			if si == 255 {
				out.Fire("rewind-256-times")
			}
		}
		res := pullData(dmx, sr, out.Log, npk*4+16)
		var got []string
		for _, x := range res {
			got = append(got, resKey(x.D, x.Err))
		}
		// (where auto-detection cannot work the stream is outside the property's quantifier: only
		// what Rewind itself promises - offset 0, no error, reader at 0 - is judged there)
		if ok, msg := seqEq(want, got); !ok && !sc.AutoFail {
			cls := "residue"
			// classify for stable signatures
			sig := "other"
			switch {
			case len(got) > len(want):
				sig = "extra-data"
			case len(got) < len(want):
				sig = "missing-data"
			default:
				sig = "altered-data"
			}
			out.Violate("C20", cls, sig, "after Rewind (steps %v, size option %d) the delivered sequence differs from a fresh Demuxer's: %s", stepsBrief(steps), cfg.PacketSize, msg)
		}
		if len(out.Violations) > pre {
			out.Narrow(pre, &RestartScenario{Model: sc.Model, Demux: sc.Demux, Steps: steps, Skipper: sc.Skipper, Observe: sc.Observe, K: sc.K, AutoFail: sc.AutoFail})
		}
		if len(steps) > 0 && steps[0].N > 0 {
			out.FP(fmt.Sprintf("%s/%d/%d", fp, cfg.PacketSize, len(steps)))
		}
	}
	if sc.Enum {
		for j := 0; j <= len(fresh); j++ {
			run([]RestartStep{{N: j, API: "data"}})
		}
	} else {
		run(sc.Steps)
	}
	out.Steps = out.Evals
	return out
}

func stepsBrief(steps []RestartStep) string {
	if len(steps) <= 8 {
		return fmt.Sprint(steps)
	}
	return fmt.Sprintf("%v ... %d steps in all, the last %v", steps[:3], len(steps), steps[len(steps)-1])
}

func (restart) Shrink(scAny any) []any {
	sc := scAny.(*RestartScenario)
	var out []any
	if sc.Enum {
		return nil
	}
	for i := range sc.Steps {
		if len(sc.Steps) > 1 {
			c := *sc
			c.Steps = append(append([]RestartStep{}, sc.Steps[:i]...), sc.Steps[i+1:]...)
			out = append(out, &c)
		}
		if sc.Steps[i].API != "data" {
			c := *sc
			c.Steps = append([]RestartStep{}, sc.Steps...)
			c.Steps[i].API = "data"
			out = append(out, &c)
		}
		if sc.Steps[i].N > 0 {
			c := *sc
			c.Steps = append([]RestartStep{}, sc.Steps...)
			c.Steps[i].N--
			out = append(out, &c)
		}
	}
	if len(sc.Demux.Reader.Chunks) > 0 || sc.Demux.Reader.EOFWithData {
		c := *sc
		c.Demux.Reader = world.ReaderPlan{Kind: "seekable"}
		out = append(out, &c)
	}
	for _, m := range shrinkModel(sc.Model) {
		c := *sc
		c.Model = m
		out = append(out, &c)
	}
	return out
}
