module verif/sim

go 1.23

require (
	github.com/asticode/go-astikit v0.30.0
	github.com/asticode/go-astits v0.0.0
)

replace github.com/asticode/go-astits => /repo
