package core

import (
	"crypto/sha256"
	"encoding/hex"
	"encoding/json"
	"fmt"
	"hash"
	"sort"
)

// Violation is one property failure observed in a run.
type Violation struct {
	Prop   string `json:"property"`
	Class  string `json:"class"`            // coarse class, stable under minimisation (e.g. "unit-lost")
	Sig    string `json:"sig,omitempty"`    // narrow behavioural signature, used to match known findings
	Detail string `json:"detail,omitempty"` // human readable
	// Scenario is a narrowed scenario reproducing exactly this violation (enumerating engines
	// execute many sub-cases per scenario); nil = the executed scenario itself.
	Scenario any `json:"-"`
}

func (v Violation) Key() string { return v.Prop + "/" + v.Class + "/" + v.Sig }

// Outcome is what one executed scenario reports.
type Outcome struct {
	Violations []Violation
	Evals      int64            // sub-executions performed
	Fired      map[string]int64 // fault kinds that actually landed inside in-flight state
	Probes     map[string]int64 // reach probes
	AbsFP      []string         // abstract fingerprints of the non-trivial sub-executions
	Steps      int64            // logical steps (API calls + I/O events)
	Packets    int64            // TS packets transported
	Log        *Log
	// Harness is set when the run could not be judged because of trouble in the machinery itself
	// (never a verdict: the check exits 2).
	Harness string
}

func NewOutcome() *Outcome {
	return &Outcome{Fired: map[string]int64{}, Probes: map[string]int64{}, Log: NewLog(false)}
}

func (o *Outcome) Violate(prop, class, sig, format string, a ...any) {
	o.Violations = append(o.Violations, Violation{Prop: prop, Class: class, Sig: sig, Detail: fmt.Sprintf(format, a...)})
}

// Narrow attaches a narrowed scenario to every violation recorded since index from.
func (o *Outcome) Narrow(from int, sc any) {
	for i := from; i < len(o.Violations); i++ {
		if o.Violations[i].Scenario == nil {
			o.Violations[i].Scenario = sc
		}
	}
}

func (o *Outcome) Fire(kind string)  { o.Fired[kind]++ }
func (o *Outcome) Probe(name string) { o.Probes[name]++ }
func (o *Outcome) FP(fp string)      { o.AbsFP = append(o.AbsFP, fp) }

// First returns the first violation of prop ("" = any) or nil.
func (o *Outcome) First(prop string) *Violation {
	for i := range o.Violations {
		if prop == "" || o.Violations[i].Prop == prop {
			return &o.Violations[i]
		}
	}
	return nil
}

// Engine is one simulated world + workload generator + oracle set.
type Engine interface {
	Name() string
	Props() []string
	// Runs is the number of run indices of a tier for a property.
	Runs(tier string) int64
	// Generate materialises every choice of run idx into a JSON-serialisable scenario.
	Generate(r *PRNG, tier string, idx int64) any
	// Execute runs a scenario. It must be a pure function of the scenario and the code under test.
	Execute(sc any, keepLog bool) *Outcome
	// Decode parses a scenario from its JSON form.
	Decode(raw json.RawMessage) (any, error)
	// Shrink proposes one-step simplifications of a scenario (most aggressive first).
	Shrink(sc any) []any
	// Meta describes the engine for the evidence file.
	Meta() EngineMeta
}

type EngineMeta struct {
	Rule        string   // how cases are generated and what makes one distinct / non-trivial
	Real        []string // components running real code
	Stub        []string // components that are models / stubs
	FaultKinds  []string // fault kinds that must fire at least once per tier (coverage failure otherwise)
	Assumptions []string
	Levels      map[string]string // property -> level
}

var registry = map[string]Engine{}
var propEngine = map[string]string{}

func Register(e Engine) {
	registry[e.Name()] = e
	for _, p := range e.Props() {
		propEngine[p] = e.Name()
	}
}

func EngineFor(prop string) Engine {
	if n, ok := propEngine[prop]; ok {
		return registry[n]
	}
	return nil
}

func EngineByName(n string) Engine { return registry[n] }

func AllProps() []string {
	var ps []string
	for p := range propEngine {
		ps = append(ps, p)
	}
	sort.Strings(ps)
	return ps
}

// Log is the seq-numbered event log of one run. Only its SHA-256 is kept unless keep is set.
type Log struct {
	h     hash.Hash
	seq   int64
	keep  bool
	Lines []string
}

func NewLog(keep bool) *Log { return &Log{h: sha256.New(), keep: keep} }

// Add appends one event. Logging never draws randomness and never reads a clock.
func (l *Log) Add(actor, event string, args ...any) {
	if l == nil {
		return
	}
	l.seq++
	var s string
	if len(args) == 0 {
		s = fmt.Sprintf("%d %s %s", l.seq, actor, event)
	} else {
		s = fmt.Sprintf("%d %s %s %v", l.seq, actor, event, args)
	}
	l.h.Write([]byte(s))
	l.h.Write([]byte{'\n'})
	if l.keep {
		if len(l.Lines) < 4000 {
			l.Lines = append(l.Lines, s)
		}
	}
}

func (l *Log) Seq() int64 { return l.seq }

func (l *Log) Sum() string {
	if l == nil {
		return ""
	}
	return hex.EncodeToString(l.h.Sum(nil))
}

// Replay is the on-disk replay file (DESIGN Appendix C).
type Replay struct {
	Property  string          `json:"property"`
	Engine    string          `json:"engine"`
	Seed      uint64          `json:"seed"`
	Run       int64           `json:"run"`
	Tier      string          `json:"tier,omitempty"`
	Scenario  json.RawMessage `json:"scenario"`
	Violation *Violation      `json:"violation,omitempty"`
	LogSHA    string          `json:"log_sha256,omitempty"`
	Minimised bool            `json:"minimised,omitempty"`
	Events    []string        `json:"events,omitempty"`
}
