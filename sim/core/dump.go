package core

import (
	"encoding/hex"
	"fmt"
	"reflect"
	"sort"
	"strings"
	"time"
)

// Dump renders any value deterministically and deeply (pointers are followed, byte slices
// printed as hex, nil-ness of pointers and slices is visible). Field names in skip are left
// out. It is the canonical form used to compare and snapshot library results.
func Dump(v any, skip ...string) string {
	var sb strings.Builder
	sk := map[string]bool{}
	for _, s := range skip {
		sk[s] = true
	}
	dump(&sb, reflect.ValueOf(v), sk, 0)
	return sb.String()
}

var timeType = reflect.TypeOf(time.Time{})

func dump(sb *strings.Builder, v reflect.Value, skip map[string]bool, depth int) {
	if depth > 40 {
		sb.WriteString("<deep>")
		return
	}
	if !v.IsValid() {
		sb.WriteString("nil")
		return
	}
	switch v.Kind() {
	case reflect.Ptr, reflect.Interface:
		if v.IsNil() {
			sb.WriteString("nil")
			return
		}
		sb.WriteString("&")
		dump(sb, v.Elem(), skip, depth+1)
	case reflect.Struct:
		if v.Type() == timeType {
			t := v.Interface().(time.Time)
			sb.WriteString(t.UTC().Format("2006-01-02T15:04:05.000000000Z"))
			return
		}
		sb.WriteString("{")
		first := true
		for i := 0; i < v.NumField(); i++ {
			f := v.Type().Field(i)
			if f.PkgPath != "" || skip[f.Name] {
				continue
			}
			if !first {
				sb.WriteString(" ")
			}
			first = false
			sb.WriteString(f.Name)
			sb.WriteString(":")
			dump(sb, v.Field(i), skip, depth+1)
		}
		sb.WriteString("}")
	case reflect.Slice:
		// nil and empty slices are the same value for every comparison made here
		if v.Type().Elem().Kind() == reflect.Uint8 {
			sb.WriteString("x'")
			sb.WriteString(hex.EncodeToString(v.Bytes()))
			sb.WriteString("'")
			return
		}
		sb.WriteString("[")
		for i := 0; i < v.Len(); i++ {
			if i > 0 {
				sb.WriteString(" ")
			}
			dump(sb, v.Index(i), skip, depth+1)
		}
		sb.WriteString("]")
	case reflect.Array:
		sb.WriteString("[")
		for i := 0; i < v.Len(); i++ {
			if i > 0 {
				sb.WriteString(" ")
			}
			dump(sb, v.Index(i), skip, depth+1)
		}
		sb.WriteString("]")
	case reflect.Map:
		keys := v.MapKeys()
		ks := make([]string, len(keys))
		m := map[string]reflect.Value{}
		for i, k := range keys {
			ks[i] = fmt.Sprint(k.Interface())
			m[ks[i]] = v.MapIndex(k)
		}
		sort.Strings(ks)
		sb.WriteString("map[")
		for i, k := range ks {
			if i > 0 {
				sb.WriteString(" ")
			}
			sb.WriteString(k)
			sb.WriteString(":")
			dump(sb, m[k], skip, depth+1)
		}
		sb.WriteString("]")
	case reflect.String:
		fmt.Fprintf(sb, "%q", v.String())
	case reflect.Bool:
		if v.Bool() {
			sb.WriteString("T")
		} else {
			sb.WriteString("F")
		}
	case reflect.Int, reflect.Int8, reflect.Int16, reflect.Int32, reflect.Int64:
		fmt.Fprintf(sb, "%d", v.Int())
	case reflect.Uint, reflect.Uint8, reflect.Uint16, reflect.Uint32, reflect.Uint64, reflect.Uintptr:
		fmt.Fprintf(sb, "%d", v.Uint())
	case reflect.Float32, reflect.Float64:
		fmt.Fprintf(sb, "%g", v.Float())
	default:
		fmt.Fprintf(sb, "<%s>", v.Kind())
	}
}

// Short trims a string for messages.
func Short(s string, n int) string {
	if len(s) <= n {
		return s
	}
	return s[:n] + fmt.Sprintf("…(+%d)", len(s)-n)
}
