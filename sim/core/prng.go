// Package core holds the simulator kernel: the PRNG every choice derives from, the
// scenario/outcome types, the event log, the worker protocol, minimisation and evidence.
package core

import "hash/fnv"

// PRNG is xoshiro256** seeded through splitmix64. It is implemented here (not math/rand) so
// that a seed means the same execution on every Go release.
type PRNG struct{ s [4]uint64 }

func splitmix(x *uint64) uint64 {
	*x += 0x9e3779b97f4a7c15
	z := *x
	z = (z ^ (z >> 30)) * 0xbf58476d1ce4e5b9
	z = (z ^ (z >> 27)) * 0x94d049bb133111eb
	return z ^ (z >> 31)
}

// NewPRNG seeds a generator from one integer.
func NewPRNG(seed uint64) *PRNG {
	p := &PRNG{}
	x := seed
	for i := range p.s {
		p.s[i] = splitmix(&x)
	}
	return p
}

// Mix derives the seed of run idx of a property from the user's VERIF_SEED. The result does
// not depend on worker count or on which worker executes the index.
func Mix(seed uint64, prop string, idx int64) uint64 {
	h := fnv.New64a()
	h.Write([]byte(prop))
	x := seed ^ h.Sum64()
	a := splitmix(&x)
	x ^= uint64(idx) * 0xd6e8feb86659fd93
	b := splitmix(&x)
	return a ^ (b << 1) ^ (b >> 63)
}

func rotl(x uint64, k uint) uint64 { return (x << k) | (x >> (64 - k)) }

// Uint64 returns the next 64 random bits.
func (p *PRNG) Uint64() uint64 {
	r := rotl(p.s[1]*5, 7) * 9
	t := p.s[1] << 17
	p.s[2] ^= p.s[0]
	p.s[3] ^= p.s[1]
	p.s[1] ^= p.s[2]
	p.s[0] ^= p.s[3]
	p.s[2] ^= t
	p.s[3] = rotl(p.s[3], 45)
	return r
}

// Intn returns a value in [0,n). n<=0 yields 0.
func (p *PRNG) Intn(n int) int {
	if n <= 1 {
		return 0
	}
	return int(p.Uint64() % uint64(n))
}

// Range returns a value in [lo,hi].
func (p *PRNG) Range(lo, hi int) int {
	if hi <= lo {
		return lo
	}
	return lo + p.Intn(hi-lo+1)
}

// Bool is a fair coin.
func (p *PRNG) Bool() bool { return p.Uint64()&1 == 1 }

// Chance is true with probability num/den.
func (p *PRNG) Chance(num, den int) bool { return p.Intn(den) < num }

// Pick returns an index drawn according to integer weights.
func (p *PRNG) Pick(weights ...int) int {
	t := 0
	for _, w := range weights {
		t += w
	}
	if t <= 0 {
		return 0
	}
	x := p.Intn(t)
	for i, w := range weights {
		if x < w {
			return i
		}
		x -= w
	}
	return len(weights) - 1
}

// Bytes returns n random bytes.
func (p *PRNG) Bytes(n int) []byte {
	b := make([]byte, n)
	for i := 0; i < n; i += 8 {
		v := p.Uint64()
		for j := 0; j < 8 && i+j < n; j++ {
			b[i+j] = byte(v >> (8 * uint(j)))
		}
	}
	return b
}

// Perm returns a permutation of [0,n).
func (p *PRNG) Perm(n int) []int {
	a := make([]int, n)
	for i := range a {
		a[i] = i
	}
	for i := n - 1; i > 0; i-- {
		j := p.Intn(i + 1)
		a[i], a[j] = a[j], a[i]
	}
	return a
}

// Fork derives an independent generator (used so that adding a draw in one part of a
// generator does not shift every later choice).
func (p *PRNG) Fork() *PRNG { return NewPRNG(p.Uint64()) }
