package core

import (
	"bufio"
	"bytes"
	"encoding/json"
	"fmt"
	"os"
	"os/exec"
	"path/filepath"
	"runtime"
	"runtime/debug"
	"sort"
	"strconv"
	"strings"
	"sync"
	"sync/atomic"
	"syscall"
	"time"
)

// ---- safe execution -------------------------------------------------------------------

// SafeExecute runs a scenario and converts a panic that originates in the library under test
// into a violation of prop; a panic originating in the harness is returned as harnessErr.
func SafeExecute(e Engine, prop string, sc any, keepLog bool) (out *Outcome, harnessErr error) {
	defer func() {
		if r := recover(); r != nil {
			st := string(debug.Stack())
			fn := panicOrigin(st)
			if strings.Contains(fn, "go-astits") || strings.Contains(fn, "go-astikit") {
				out = NewOutcome()
				out.Evals = 1
				out.Violate(prop, "panic", shortFn(fn), "panic in library code: %v at %s", r, fn)
				return
			}
			harnessErr = fmt.Errorf("harness panic: %v\n%s", r, st)
		}
	}()
	out = e.Execute(sc, keepLog)
	return
}

// panicOrigin returns the function name of the innermost non-runtime frame of the panicking
// goroutine.
func panicOrigin(stack string) string {
	lines := strings.Split(stack, "\n")
	seenPanic := false
	for i := 0; i < len(lines); i++ {
		l := lines[i]
		if strings.HasPrefix(l, "panic(") {
			seenPanic = true
			continue
		}
		if !seenPanic || strings.HasPrefix(l, "\t") || l == "" {
			continue
		}
		if strings.HasPrefix(l, "runtime.") || strings.HasPrefix(l, "runtime/") {
			continue
		}
		return l
	}
	return ""
}

func shortFn(fn string) string {
	if i := strings.LastIndex(fn, "/"); i >= 0 {
		fn = fn[i+1:]
	}
	if i := strings.Index(fn, "("); i > 0 && !strings.HasPrefix(fn[i:], "(*") {
		fn = fn[:i]
	}
	if i := strings.LastIndex(fn, "(0x"); i > 0 {
		fn = fn[:i]
	}
	if i := strings.Index(fn, "({"); i > 0 {
		fn = fn[:i]
	}
	return fn
}

// ---- worker ---------------------------------------------------------------------------

type workerMsg struct {
	T          string           `json:"t"` // viol | sample | sum | hang | harness
	Idx        int64            `json:"idx,omitempty"`
	Scenario   json.RawMessage  `json:"scenario,omitempty"`
	Violations []Violation      `json:"violations,omitempty"`
	LogSHA     string           `json:"logsha,omitempty"`
	Err        string           `json:"err,omitempty"`
	Runs       int64            `json:"runs,omitempty"`
	Evals      int64            `json:"evals,omitempty"`
	Steps      int64            `json:"steps,omitempty"`
	Packets    int64            `json:"packets,omitempty"`
	Fired      map[string]int64 `json:"fired,omitempty"`
	Probes     map[string]int64 `json:"probes,omitempty"`
	FPs        []uint64         `json:"fps,omitempty"`
	Logs       []uint64         `json:"logs,omitempty"`
	ViolCount  map[string]int64 `json:"violcount,omitempty"`
	Nontrivial int64            `json:"nontrivial,omitempty"`
}

// cpuNanos is the processor time (user + system) this process has consumed.
func cpuNanos() int64 {
	var ru syscall.Rusage
	if syscall.Getrusage(syscall.RUSAGE_SELF, &ru) != nil {
		return 0
	}
	return ru.Utime.Nano() + ru.Stime.Nano()
}

// HangLimit is the per-scenario supervisor limit (processor time).
var HangLimit = 20 * time.Second

// Worker executes the run indices idx ≡ w (mod W), idx >= start, of a property tier.
func Worker(prop, tier string, seed uint64, w, W int, start, runLimit int64) int {
	e := EngineFor(prop)
	if e == nil {
		fmt.Fprintf(os.Stderr, "no engine for %s\n", prop)
		return 2
	}
	n := e.Runs(tier)
	if runLimit > 0 && runLimit < n {
		n = runLimit
	}
	out := bufio.NewWriterSize(os.Stdout, 1<<20)
	var mu sync.Mutex
	emit := func(m workerMsg) {
		b, _ := json.Marshal(m)
		mu.Lock()
		out.Write(b)
		out.WriteByte('\n')
		out.Flush()
		mu.Unlock()
	}
	limit := HangLimit
	const wallCap = 10 * time.Minute
	if prop != "C03" {
		// Only C03's subject is termination; elsewhere the supervisor merely guards the harness
		// and must not fire because the machine is busy.
		limit = 6 * HangLimit
	}
	var cur atomic.Int64
	var curStart, curCPU atomic.Int64
	cur.Store(-1)
	go func() {
		// Supervisor. A run that does not terminate in this single-goroutine simulation spins (the
		// simulated reader never blocks), so it is recognised by the processor time the worker
		// consumes during the run, not by the wall clock: a stalled or overloaded machine must not
		// look like a hang. The wall clock only guards the harness (exit 2, never a verdict).
		for {
			time.Sleep(500 * time.Millisecond)
			c := cur.Load()
			if c < 0 {
				continue
			}
			if cpuNanos()-curCPU.Load() > int64(limit) {
				if cur.Load() != c {
					continue
				}
				emit(workerMsg{T: "hang", Idx: c})
				os.Exit(3)
			}
			if time.Since(time.Unix(0, curStart.Load())) > wallCap {
				emit(workerMsg{T: "harness", Idx: c, Err: fmt.Sprintf("run %d made no progress for %v of wall-clock time while consuming less than %v of processor time (machine stalled?)", c, wallCap, limit)})
				os.Exit(2)
			}
		}
	}()
	sum := workerMsg{T: "sum", Fired: map[string]int64{}, Probes: map[string]int64{}, ViolCount: map[string]int64{}}
	fps := map[uint64]struct{}{}
	logs := map[uint64]struct{}{}
	perKey := map[string]int{}
	samples := 0
	first := start
	for first%int64(W) != int64(w) {
		first++
	}
	for idx := first; idx < n; idx += int64(W) {
		curStart.Store(time.Now().UnixNano())
		curCPU.Store(cpuNanos())
		cur.Store(idx)
		sc := e.Generate(NewPRNG(Mix(seed, prop, idx)), tier, idx)
		o, herr := SafeExecute(e, prop, sc, false)
		cur.Store(-1)
		if herr == nil && o.Harness != "" {
			herr = fmt.Errorf("%s", o.Harness)
		}
		if herr != nil {
			raw, _ := json.Marshal(sc)
			emit(workerMsg{T: "harness", Idx: idx, Err: herr.Error(), Scenario: raw})
			return 2
		}
		sum.Runs++
		sum.Evals += o.Evals
		sum.Steps += o.Steps
		sum.Packets += o.Packets
		for k, v := range o.Fired {
			sum.Fired[k] += v
		}
		for k, v := range o.Probes {
			sum.Probes[k] += v
		}
		if len(o.AbsFP) > 0 {
			sum.Nontrivial++
		}
		for _, f := range o.AbsFP {
			fps[fnv64([]byte(f))] = struct{}{}
		}
		if ls := o.Log.Sum(); ls != "" {
			logs[fnv64([]byte(ls))] = struct{}{}
		}
		var mine []Violation
		for _, v := range o.Violations {
			if v.Prop == prop {
				mine = append(mine, v)
			}
		}
		if len(mine) > 0 {
			// one message per distinct violation key of the run, so that a recorded known
			// finding can never hide a different violation found in the same run
			seenKey := map[string]bool{}
			for _, v := range mine {
				k := v.Key()
				if seenKey[k] {
					continue
				}
				seenKey[k] = true
				sum.ViolCount[k]++
				if perKey[k] < 2 {
					perKey[k]++
					fs := v.Scenario
					if fs == nil {
						fs = sc
					}
					raw, _ := json.Marshal(fs)
					emit(workerMsg{T: "viol", Idx: idx, Scenario: raw, Violations: []Violation{v}, LogSHA: o.Log.Sum()})
				}
			}
		} else if w == 0 && samples < 2 {
			samples++
			raw, _ := json.Marshal(sc)
			if len(raw) < 20000 {
				emit(workerMsg{T: "sample", Idx: idx, Scenario: raw})
			} else {
				samples--
			}
		}
	}
	for f := range fps {
		sum.FPs = append(sum.FPs, f)
	}
	for l := range logs {
		sum.Logs = append(sum.Logs, l)
	}
	emit(sum)
	return 0
}

// ---- known findings -------------------------------------------------------------------

type Finding struct {
	ID          string          `json:"id"`
	Property    string          `json:"property"`
	Status      string          `json:"status"` // known | fixed
	Class       string          `json:"class"`
	Sig         string          `json:"sig"`
	Commit      string          `json:"commit,omitempty"`
	Description string          `json:"description"`
	Witness     json.RawMessage `json:"witness,omitempty"`
}

func LoadFindings(path string) ([]Finding, error) {
	f, err := os.Open(path)
	if err != nil {
		if os.IsNotExist(err) {
			return nil, nil
		}
		return nil, err
	}
	defer f.Close()
	var fs []Finding
	sc := bufio.NewScanner(f)
	sc.Buffer(make([]byte, 1<<20), 1<<26)
	for sc.Scan() {
		l := strings.TrimSpace(sc.Text())
		if l == "" || strings.HasPrefix(l, "#") {
			continue
		}
		var x Finding
		if err := json.Unmarshal([]byte(l), &x); err != nil {
			return nil, fmt.Errorf("known_findings: %v", err)
		}
		fs = append(fs, x)
	}
	return fs, sc.Err()
}

// ---- minimisation ---------------------------------------------------------------------

// Minimise greedily applies engine-proposed simplifications while the same violation key
// persists. Budget bounds the number of executions.
func Minimise(e Engine, prop string, sc any, key string, budget int, deadline time.Time) (any, int) {
	execs := 0
	has := func(c any) bool {
		execs++
		o, herr := SafeExecute(e, prop, c, false)
		if herr != nil || o == nil {
			return false
		}
		for _, v := range o.Violations {
			if v.Key() == key {
				return true
			}
		}
		return false
	}
	for progress := true; progress && execs < budget && time.Now().Before(deadline); {
		progress = false
		for _, c := range e.Shrink(sc) {
			if execs >= budget || !time.Now().Before(deadline) {
				break
			}
			if has(c) {
				sc = c
				progress = true
				break
			}
		}
	}
	return sc, execs
}

// ---- check (parent) -------------------------------------------------------------------

type CheckOpts struct {
	Prop, Tier string
	Seed       uint64
	VerifDir   string
	Workers    int
	Limit      int64 // 0 = tier default
	SelfExe    string
}

type aggregate struct {
	workerMsg
	viol    []workerMsg
	samples []workerMsg
	hangs   []int64
}

func runWorkers(o CheckOpts, e Engine) (*aggregate, error) {
	W := o.Workers
	agg := &aggregate{}
	agg.Fired = map[string]int64{}
	agg.Probes = map[string]int64{}
	agg.ViolCount = map[string]int64{}
	fps := map[uint64]struct{}{}
	logs := map[uint64]struct{}{}
	var mu sync.Mutex
	var wg sync.WaitGroup
	var firstErr error
	for w := 0; w < W; w++ {
		wg.Add(1)
		go func(w int) {
			defer wg.Done()
			start := int64(0)
			for attempt := 0; attempt < 50; attempt++ {
				cmd := exec.Command(o.SelfExe, "worker", "-prop", o.Prop, "-tier", o.Tier, "-seed", strconv.FormatUint(o.Seed, 10),
					"-w", strconv.Itoa(w), "-W", strconv.Itoa(W), "-start", strconv.FormatInt(start, 10), "-limit", strconv.FormatInt(o.Limit, 10))
				cmd.Stderr = os.Stderr
				cmd.Env = append(os.Environ(), "GOMAXPROCS=2")
				pipe, err := cmd.StdoutPipe()
				if err != nil {
					mu.Lock()
					firstErr = err
					mu.Unlock()
					return
				}
				if err := cmd.Start(); err != nil {
					mu.Lock()
					firstErr = err
					mu.Unlock()
					return
				}
				sc := bufio.NewScanner(pipe)
				sc.Buffer(make([]byte, 1<<20), 1<<28)
				hung := int64(-1)
				gotSum := false
				for sc.Scan() {
					var m workerMsg
					if err := json.Unmarshal(sc.Bytes(), &m); err != nil {
						continue
					}
					mu.Lock()
					switch m.T {
					case "viol":
						agg.viol = append(agg.viol, m)
					case "sample":
						agg.samples = append(agg.samples, m)
					case "hang":
						hung = m.Idx
						agg.hangs = append(agg.hangs, m.Idx)
					case "harness":
						firstErr = fmt.Errorf("harness failure at idx %d: %s\nscenario: %s", m.Idx, m.Err, Short(string(m.Scenario), 2000))
					case "sum":
						gotSum = true
						agg.Runs += m.Runs
						agg.Evals += m.Evals
						agg.Steps += m.Steps
						agg.Packets += m.Packets
						agg.Nontrivial += m.Nontrivial
						for k, v := range m.Fired {
							agg.Fired[k] += v
						}
						for k, v := range m.Probes {
							agg.Probes[k] += v
						}
						for k, v := range m.ViolCount {
							agg.ViolCount[k] += v
						}
						for _, f := range m.FPs {
							fps[f] = struct{}{}
						}
						for _, l := range m.Logs {
							logs[l] = struct{}{}
						}
					}
					mu.Unlock()
				}
				err = cmd.Wait()
				if hung >= 0 {
					// NOTE: the partial sums of the hung worker are lost; they only feed statistics.
					start = hung + 1
					continue
				}
				if err != nil || !gotSum {
					mu.Lock()
					if firstErr == nil {
						firstErr = fmt.Errorf("worker %d failed: %v", w, err)
					}
					mu.Unlock()
				}
				return
			}
		}(w)
	}
	wg.Wait()
	for f := range fps {
		agg.FPs = append(agg.FPs, f)
	}
	for l := range logs {
		agg.Logs = append(agg.Logs, l)
	}
	sort.Slice(agg.viol, func(i, j int) bool { return agg.viol[i].Idx < agg.viol[j].Idx })
	sort.Slice(agg.samples, func(i, j int) bool { return agg.samples[i].Idx < agg.samples[j].Idx })
	return agg, firstErr
}

// Check is the entry point behind `bin/check <id> <tier>`.
func Check(o CheckOpts) int {
	t0 := time.Now()
	e := EngineFor(o.Prop)
	if e == nil {
		fmt.Fprintf(os.Stderr, "no engine serves property %s\n", o.Prop)
		return 2
	}
	if o.Workers <= 0 {
		o.Workers = runtime.NumCPU()
		if o.Workers > 16 {
			o.Workers = 16
		}
	}
	fmt.Printf("check property=%s engine=%s tier=%s VERIF_SEED=%d workers=%d runs=%d\n", o.Prop, e.Name(), o.Tier, o.Seed, o.Workers, e.Runs(o.Tier))
	findings, err := LoadFindings(filepath.Join(o.VerifDir, "known_findings.jsonl"))
	if err != nil {
		fmt.Fprintln(os.Stderr, err)
		return 2
	}
	exit := 0
	replayDir := filepath.Join(o.VerifDir, "replays")
	os.MkdirAll(replayDir, 0o755)
	nrep := 0
	writeReplay := func(idx int64, sc any, v Violation, minimised bool) string {
		raw, _ := json.Marshal(sc)
		oo, _ := SafeExecute(e, o.Prop, sc, true)
		rp := Replay{Property: o.Prop, Engine: e.Name(), Seed: o.Seed, Run: idx, Tier: o.Tier, Scenario: raw, Violation: &v, Minimised: minimised}
		if oo != nil {
			rp.LogSHA = oo.Log.Sum()
			rp.Events = oo.Log.Lines
			if len(rp.Events) > 400 {
				rp.Events = rp.Events[len(rp.Events)-400:]
			}
		}
		nrep++
		p := filepath.Join(replayDir, fmt.Sprintf("%s-%d-%d.json", o.Prop, o.Seed, nrep))
		b, _ := json.MarshalIndent(rp, "", " ")
		os.WriteFile(p, b, 0o644)
		return p
	}
	knownHits := map[string]int64{}
	var knownLines []string
	known := map[string]Finding{}
	// Replay witnesses of recorded findings.
	for _, f := range findings {
		if f.Property != o.Prop {
			continue
		}
		key := f.Property + "/" + f.Class + "/" + f.Sig
		if f.Status == "known" {
			known[key] = f
		}
		if len(f.Witness) == 0 {
			continue
		}
		sc, err := e.Decode(f.Witness)
		if err != nil {
			fmt.Fprintf(os.Stderr, "finding %s: witness does not decode: %v\n", f.ID, err)
			return 2
		}
		out, herr := SafeExecute(e, o.Prop, sc, false)
		if herr != nil {
			fmt.Fprintf(os.Stderr, "finding %s: %v\n", f.ID, herr)
			return 2
		}
		reproduced := false
		for _, v := range out.Violations {
			if v.Key() == key {
				reproduced = true
			}
		}
		switch f.Status {
		case "known":
			if reproduced {
				l := fmt.Sprintf("KNOWN-FINDING: property=%s %s [%s]", f.Property, f.Description, f.ID)
				knownLines = append(knownLines, l)
				fmt.Println(l)
			} else {
				fmt.Printf("note: known finding %s no longer reproduces on its witness\n", f.ID)
			}
			// any *other* violation on the witness is reported by the search if it is reachable there.
		case "fixed":
			if v := out.First(o.Prop); v != nil {
				p := writeReplay(-1, sc, *v, false)
				fmt.Printf("VIOLATION property=%s replay=%s\n", o.Prop, p)
				fmt.Printf("  fixed finding %s (%s) fails again: %s: %s\n", f.ID, f.Commit, v.Class, Short(v.Detail, 300))
				exit = 1
			}
		}
	}
	agg, werr := runWorkers(o, e)
	if werr != nil {
		fmt.Fprintln(os.Stderr, "HARNESS-ERROR:", werr)
		return 2
	}
	// A supervisor expiry is confirmed before it counts: the run is repeated alone in a fresh
	// process (a stalled machine must not turn into a verdict). If it completes there, whatever it
	// found is merged and the expiry is dropped.
	var confirmed []int64
	for _, h := range agg.hangs {
		// up to three attempts, one after the other: both clocks can jump when the virtual machine
		// is paused (observed: snapshots of the sandbox), and a real non-terminating run expires
		// every time
		again, done := false, false
		for attempt := 0; attempt < 3 && !done; attempt++ {
			cmd := exec.Command(o.SelfExe, "worker", "-prop", o.Prop, "-tier", o.Tier, "-seed", strconv.FormatUint(o.Seed, 10),
				"-w", "0", "-W", "1", "-start", strconv.FormatInt(h, 10), "-limit", strconv.FormatInt(h+1, 10))
			cmd.Stderr = os.Stderr
			cmd.Env = append(os.Environ(), "GOMAXPROCS=2")
			outb, _ := cmd.Output()
			again = false
			var viols []workerMsg
			for _, line := range bytes.Split(outb, []byte{'\n'}) {
				var m workerMsg
				if json.Unmarshal(line, &m) != nil {
					continue
				}
				switch m.T {
				case "hang":
					again = true
				case "viol":
					viols = append(viols, m)
				case "sum":
					done = true
					for k, v := range m.ViolCount {
						agg.ViolCount[k] += v
					}
				}
			}
			if done {
				agg.viol = append(agg.viol, viols...)
			}
		}
		if !done {
			_ = again
			confirmed = append(confirmed, h)
		} else {
			fmt.Printf("note: run %d exceeded the supervisor limit once but completes when repeated alone (busy or paused machine); not a verdict\n", h)
		}
	}
	agg.hangs = confirmed
	sort.Slice(agg.viol, func(i, j int) bool { return agg.viol[i].Idx < agg.viol[j].Idx })
	// Hangs: a verdict only for the engine whose subject is termination.
	for _, h := range agg.hangs {
		sc := e.Generate(NewPRNG(Mix(o.Seed, o.Prop, h)), o.Tier, h)
		if o.Prop == "C03" {
			v := Violation{Prop: o.Prop, Class: "hang", Detail: fmt.Sprintf("run %d did not finish within %v", h, HangLimit)}
			raw, _ := json.Marshal(sc)
			nrep++
			p := filepath.Join(replayDir, fmt.Sprintf("%s-%d-%d.json", o.Prop, o.Seed, nrep))
			b, _ := json.MarshalIndent(Replay{Property: o.Prop, Engine: e.Name(), Seed: o.Seed, Run: h, Tier: o.Tier, Scenario: raw, Violation: &v}, "", " ")
			os.WriteFile(p, b, 0o644)
			fmt.Printf("VIOLATION property=%s replay=%s\n  %s\n", o.Prop, p, v.Detail)
			exit = 1
		} else {
			fmt.Fprintf(os.Stderr, "HARNESS-ERROR: run %d exceeded the %v watchdog\n", h, HangLimit)
			return 2
		}
	}
	// Violations: group by key, smallest index first.
	seen := map[string]bool{}
	violKeys := 0
	for _, m := range agg.viol {
		v := m.Violations[0]
		key := v.Key()
		if seen[key] {
			continue
		}
		seen[key] = true
		if f, ok := known[key]; ok {
			knownHits[f.ID] += agg.ViolCount[key]
			continue
		}
		violKeys++
		if violKeys > 8 {
			continue
		}
		sc, err := e.Decode(m.Scenario)
		if err != nil {
			fmt.Fprintf(os.Stderr, "HARNESS-ERROR: violation scenario does not decode: %v\n", err)
			return 2
		}
		msc, execs := Minimise(e, o.Prop, sc, key, 400, time.Now().Add(30*time.Second))
		mo, _ := SafeExecute(e, o.Prop, msc, false)
		mv := v
		if mo != nil {
			for _, x := range mo.Violations {
				if x.Key() == key {
					mv = x
				}
			}
		}
		p := writeReplay(m.Idx, msc, mv, true)
		fmt.Printf("VIOLATION property=%s replay=%s\n", o.Prop, p)
		fmt.Printf("  class=%s sig=%s run=%d occurrences=%d minimise_execs=%d\n  %s\n", mv.Class, mv.Sig, m.Idx, agg.ViolCount[key], execs, Short(mv.Detail, 600))
		exit = 1
	}
	for id, n := range knownHits {
		fmt.Printf("note: known finding %s matched %d run(s) during the search\n", id, n)
	}
	// Fault-kind coverage: configured kinds must have fired.
	meta := e.Meta()
	var unfired []string
	if o.Limit == 0 {
		for _, k := range meta.FaultKinds {
			if agg.Fired[k] == 0 {
				unfired = append(unfired, k)
			}
		}
	}
	wall := time.Since(t0).Seconds()
	if err := writeEvidence(o, e, agg, knownLines, knownHits, exit, wall); err != nil {
		fmt.Fprintln(os.Stderr, "HARNESS-ERROR: evidence:", err)
		return 2
	}
	fmt.Printf("done property=%s runs=%d evaluations=%d distinct_nontrivial=%d distinct_logs=%d wall=%.1fs runs/h=%.0f\n",
		o.Prop, agg.Runs, agg.Evals, len(agg.FPs), len(agg.Logs), wall, float64(agg.Runs)/wall*3600)
	if exit == 0 && len(unfired) > 0 {
		fmt.Fprintf(os.Stderr, "HARNESS-ERROR: fault kinds never fired in this tier: %v\n", unfired)
		return 2
	}
	return exit
}

func writeEvidence(o CheckOpts, e Engine, agg *aggregate, knownLines []string, knownHits map[string]int64, exit int, wall float64) error {
	meta := e.Meta()
	var samples []any
	for i, s := range agg.samples {
		if i >= 3 {
			break
		}
		var x any
		json.Unmarshal(s.Scenario, &x)
		samples = append(samples, map[string]any{"run": s.Idx, "scenario": x})
	}
	if len(samples) == 0 {
		sc := e.Generate(NewPRNG(Mix(o.Seed, o.Prop, 0)), o.Tier, 0)
		samples = append(samples, map[string]any{"run": 0, "scenario": sc})
	}
	level := meta.Levels[o.Prop]
	if level == "" {
		level = "exploration"
	}
	nviol := int64(0)
	for _, n := range agg.ViolCount {
		nviol += n
	}
	cov := map[string]any{
		"evaluations":              agg.Evals,
		"distinct_nontrivial":      len(agg.FPs),
		"rule":                     meta.Rule,
		"samples":                  samples,
		"simulated_runs":           agg.Runs,
		"nontrivial_runs":          agg.Nontrivial,
		"runs_per_hour":            float64(agg.Runs) / wall * 3600,
		"evaluations_per_hour":     float64(agg.Evals) / wall * 3600,
		"simulated_time":           map[string]any{"unit": "logical steps (API calls, I/O events) and transported TS packets; the library has no clock", "steps": agg.Steps, "ts_packets": agg.Packets},
		"faults_fired":             agg.Fired,
		"reach_probes":             agg.Probes,
		"distinct_event_logs":      len(agg.Logs),
		"seeds":                    map[string]any{"VERIF_SEED": o.Seed, "run_seed": "mix(VERIF_SEED, property, run index)", "run_indices": agg.Runs},
		"components_real":          meta.Real,
		"components_stub_or_model": meta.Stub,
		"known_findings_reported":  knownLines,
		"known_finding_hits":       knownHits,
		"engine":                   e.Name(),
		"workers":                  o.Workers,
	}
	ev := map[string]any{
		"property_id": o.Prop,
		"tier":        o.Tier,
		"seed":        int64(o.Seed),
		"level":       level,
		"coverage":    cov,
		"assumptions": meta.Assumptions,
		"wall_s":      wall,
		"violations":  nviol - sumHits(knownHits),
	}
	b, err := json.MarshalIndent(ev, "", " ")
	if err != nil {
		return err
	}
	dir := filepath.Join(o.VerifDir, "evidence")
	os.MkdirAll(dir, 0o755)
	return os.WriteFile(filepath.Join(dir, o.Prop+".json"), b, 0o644)
}

func sumHits(m map[string]int64) int64 {
	var t int64
	for _, v := range m {
		t += v
	}
	return t
}

// ---- replay ---------------------------------------------------------------------------

// ReplayFile re-executes a replay file in this (fresh) process.
func ReplayFile(path string) int {
	b, err := os.ReadFile(path)
	if err != nil {
		fmt.Fprintln(os.Stderr, err)
		return 2
	}
	var rp Replay
	if err := json.Unmarshal(b, &rp); err != nil {
		fmt.Fprintln(os.Stderr, err)
		return 2
	}
	e := EngineByName(rp.Engine)
	if e == nil {
		e = EngineFor(rp.Property)
	}
	if e == nil {
		fmt.Fprintln(os.Stderr, "unknown engine", rp.Engine)
		return 2
	}
	sc, err := e.Decode(rp.Scenario)
	if err != nil {
		fmt.Fprintln(os.Stderr, err)
		return 2
	}
	out, herr := SafeExecute(e, rp.Property, sc, true)
	if herr != nil {
		fmt.Fprintln(os.Stderr, herr)
		return 2
	}
	for _, l := range out.Log.Lines {
		fmt.Println("  ", l)
	}
	fmt.Printf("log_sha256=%s recorded=%s match=%v\n", out.Log.Sum(), rp.LogSHA, rp.LogSHA == "" || rp.LogSHA == out.Log.Sum())
	if len(out.Violations) == 0 {
		fmt.Println("NOT-REPRODUCED: no violation on this tree")
		return 0
	}
	rc := 0
	for _, v := range out.Violations {
		same := rp.Violation != nil && v.Key() == rp.Violation.Key()
		fmt.Printf("VIOLATION property=%s replay=%s\n  class=%s sig=%s same_as_recorded=%v\n  %s\n", v.Prop, path, v.Class, v.Sig, same, Short(v.Detail, 1000))
		rc = 1
	}
	return rc
}

// Fingerprints prints the event-log hash of the first n runs (determinism self-test).
func Fingerprints(prop, tier string, seed uint64, n int64) int {
	e := EngineFor(prop)
	if e == nil {
		return 2
	}
	for idx := int64(0); idx < n && idx < e.Runs(tier); idx++ {
		sc := e.Generate(NewPRNG(Mix(seed, prop, idx)), tier, idx)
		o, herr := SafeExecute(e, prop, sc, false)
		if herr != nil {
			fmt.Printf("%d HARNESS %v\n", idx, herr)
			continue
		}
		raw, _ := json.Marshal(sc)
		vk := ""
		for _, v := range o.Violations {
			vk += v.Key() + ";"
		}
		fmt.Printf("%d %s %x %s\n", idx, o.Log.Sum(), fnv64(raw), vk)
	}
	return 0
}

func fnv64(b []byte) uint64 {
	h := uint64(14695981039346656037)
	for _, c := range b {
		h ^= uint64(c)
		h *= 1099511628211
	}
	return h
}
