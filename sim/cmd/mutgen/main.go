// mutgen enumerates small syntactic mutations of a Go source file (mutation testing of the
// checks, not part of any registered check).
//
//	mutgen -file f.go -list            prints "<id>\t<line>\t<kind>\t<description>" per mutation site
//	mutgen -file f.go -apply <id> -o out.go   writes the mutated file
package main

import (
	"bytes"
	"flag"
	"fmt"
	"go/ast"
	"go/format"
	"go/parser"
	"go/token"
	"os"
	"strconv"
)

type site struct {
	line int
	kind string
	desc string
	do   func()
}

func main() {
	file := flag.String("file", "", "")
	list := flag.Bool("list", false, "")
	apply := flag.Int("apply", -1, "")
	out := flag.String("o", "", "")
	flag.Parse()
	fset := token.NewFileSet()
	f, err := parser.ParseFile(fset, *file, nil, parser.ParseComments)
	if err != nil {
		fmt.Fprintln(os.Stderr, err)
		os.Exit(2)
	}
	var sites []site
	add := func(pos token.Pos, kind, desc string, do func()) {
		sites = append(sites, site{fset.Position(pos).Line, kind, desc, do})
	}
	swap := map[token.Token][]token.Token{
		token.EQL: {token.NEQ}, token.NEQ: {token.EQL},
		token.LSS: {token.LEQ, token.GEQ}, token.LEQ: {token.LSS, token.GTR},
		token.GTR: {token.GEQ, token.LEQ}, token.GEQ: {token.GTR, token.LSS},
		token.LAND: {token.LOR}, token.LOR: {token.LAND},
		token.ADD: {token.SUB}, token.SUB: {token.ADD},
		token.SHL: {token.SHR}, token.SHR: {token.SHL},
		token.AND: {token.OR}, token.OR: {token.AND},
	}
	assignSwap := map[token.Token]token.Token{token.ADD_ASSIGN: token.SUB_ASSIGN, token.SUB_ASSIGN: token.ADD_ASSIGN, token.OR_ASSIGN: token.AND_ASSIGN}
	ast.Inspect(f, func(n ast.Node) bool {
		switch x := n.(type) {
		case *ast.GenDecl:
			if x.Tok == token.CONST || x.Tok == token.IMPORT || x.Tok == token.TYPE {
				return x.Tok == token.CONST // constants are mutated through their literals
			}
		case *ast.BinaryExpr:
			for _, t := range swap[x.Op] {
				x, o, t := x, x.Op, t
				add(x.OpPos, "binop", fmt.Sprintf("%s -> %s", o, t), func() { x.Op = t })
			}
		case *ast.AssignStmt:
			if t, ok := assignSwap[x.Tok]; ok {
				x, t := x, t
				add(x.TokPos, "assignop", fmt.Sprintf("%s -> %s", x.Tok, t), func() { x.Tok = t })
			}
		case *ast.IncDecStmt:
			add(x.TokPos, "incdec", "++ <-> --", func() {
				if x.Tok == token.INC {
					x.Tok = token.DEC
				} else {
					x.Tok = token.INC
				}
			})
		case *ast.BasicLit:
			if x.Kind == token.INT {
				if v, err := strconv.ParseInt(x.Value, 0, 64); err == nil && v >= 0 && v < 70000 {
					x, v := x, v
					add(x.Pos(), "const", fmt.Sprintf("%s -> %d", x.Value, v+1), func() { x.Value = strconv.FormatInt(v+1, 10) })
					if v > 0 {
						add(x.Pos(), "const", fmt.Sprintf("%s -> %d", x.Value, v-1), func() { x.Value = strconv.FormatInt(v-1, 10) })
					}
				}
			}
		case *ast.Ident:
			if x.Name == "true" || x.Name == "false" {
				x := x
				add(x.Pos(), "bool", x.Name+" flipped", func() {
					if x.Name == "true" {
						x.Name = "false"
					} else {
						x.Name = "true"
					}
				})
			}
		case *ast.IfStmt:
			add(x.Cond.Pos(), "ifneg", "condition negated", func() { x.Cond = &ast.UnaryExpr{Op: token.NOT, X: &ast.ParenExpr{X: x.Cond}} })
		case *ast.BranchStmt:
			if x.Label == nil && (x.Tok == token.BREAK || x.Tok == token.CONTINUE) {
				x := x
				add(x.Pos(), "branch", "break <-> continue", func() {
					if x.Tok == token.BREAK {
						x.Tok = token.CONTINUE
					} else {
						x.Tok = token.BREAK
					}
				})
			}
		case *ast.BlockStmt:
			for i, s := range x.List {
				del := false
				switch st := s.(type) {
				case *ast.ExprStmt, *ast.IncDecStmt:
					del = true
				case *ast.AssignStmt:
					del = st.Tok != token.DEFINE
				}
				if del {
					x, i := x, i
					add(s.Pos(), "delete", "statement deleted", func() { x.List[i] = &ast.EmptyStmt{Semicolon: x.List[i].Pos()} })
				}
			}
		}
		return true
	})
	if *list {
		for i, s := range sites {
			fmt.Printf("%d\t%d\t%s\t%s\n", i, s.line, s.kind, s.desc)
		}
		return
	}
	if *apply < 0 || *apply >= len(sites) {
		fmt.Fprintln(os.Stderr, "no such site")
		os.Exit(2)
	}
	sites[*apply].do()
	var buf bytes.Buffer
	if err := format.Node(&buf, fset, f); err != nil {
		fmt.Fprintln(os.Stderr, err)
		os.Exit(2)
	}
	if err := os.WriteFile(*out, buf.Bytes(), 0o644); err != nil {
		fmt.Fprintln(os.Stderr, err)
		os.Exit(2)
	}
}
