// simctl is the command behind /verif/bin/check.
package main

import (
	"flag"
	"fmt"
	"os"
	"strconv"

	"verif/sim/core"
	"verif/sim/props"
)

func seedEnv() uint64 {
	if s := os.Getenv("VERIF_SEED"); s != "" {
		if v, err := strconv.ParseUint(s, 10, 64); err == nil {
			return v
		}
		if v, err := strconv.ParseInt(s, 10, 64); err == nil {
			return uint64(v)
		}
	}
	return 1
}

func main() {
	if len(os.Args) < 2 {
		fmt.Fprintln(os.Stderr, "usage: simctl check|worker|replay|fingerprints|props ...")
		os.Exit(2)
	}
	switch os.Args[1] {
	case "check":
		fs := flag.NewFlagSet("check", flag.ExitOnError)
		prop := fs.String("prop", "", "property id")
		tier := fs.String("tier", "quick", "quick|thorough")
		dir := fs.String("verif", "/verif", "verif directory")
		workers := fs.Int("workers", 0, "worker processes (default: cores, max 16)")
		limit := fs.Int64("limit", 0, "limit run indices (debug)")
		fs.Parse(os.Args[2:])
		exe, _ := os.Executable()
		os.Exit(core.Check(core.CheckOpts{Prop: *prop, Tier: *tier, Seed: seedEnv(), VerifDir: *dir, Workers: *workers, Limit: *limit, SelfExe: exe}))
	case "worker":
		fs := flag.NewFlagSet("worker", flag.ExitOnError)
		prop := fs.String("prop", "", "")
		tier := fs.String("tier", "quick", "")
		seed := fs.Uint64("seed", 1, "")
		w := fs.Int("w", 0, "")
		W := fs.Int("W", 1, "")
		start := fs.Int64("start", 0, "")
		limit := fs.Int64("limit", 0, "")
		fs.Parse(os.Args[2:])
		os.Exit(core.Worker(*prop, *tier, *seed, *w, *W, *start, *limit))
	case "replay":
		if len(os.Args) < 3 {
			os.Exit(2)
		}
		os.Exit(core.ReplayFile(os.Args[2]))
	case "fingerprints":
		fs := flag.NewFlagSet("fingerprints", flag.ExitOnError)
		prop := fs.String("prop", "", "")
		tier := fs.String("tier", "quick", "")
		n := fs.Int64("n", 200, "")
		fs.Parse(os.Args[2:])
		os.Exit(core.Fingerprints(*prop, *tier, seedEnv(), *n))
	case "tenant-exec":
		os.Exit(props.TenantExecMain())
	case "props":
		for _, p := range core.AllProps() {
			fmt.Println(p, core.EngineFor(p).Name())
		}
	default:
		fmt.Fprintln(os.Stderr, "unknown command", os.Args[1])
		os.Exit(2)
	}
}
