package world

import (
	"sync/atomic"
	"unsafe"
)

// PoolPlan describes the reuse behaviour of the simulated buffer pool.
type PoolPlan struct {
	Policy string `json:"policy"`          // lifo | fifo | pick | never
	Picks  []int  `json:"picks,omitempty"` // pick: index into the free list per Get (cyclic)
}

type poolEntry struct {
	buf  []byte
	seq  atomic.Uint32 // publishes the hand-over of this item (what sync.Pool itself guarantees)
	free bool
}

// SimPool is the simulated backing store of the library's package-level pool (hook build tag
// verif). It is shared by all tenants of a run; they are serialised by the scheduler, and
// all bookkeeping here is in //go:norace functions so that the race detector only sees the
// one synchronisation a real sync.Pool provides: Put of an item happens before the Get that
// returns it. Buffers are poisoned on Put and again on Get, so that anything still aliasing a
// pooled buffer changes under its owner's feet at once.
type SimPool struct {
	plan PoolPlan
	// Fixed-size tables: runtime map access and slice growth carry their own race-detector
	// annotations even when called from //go:norace code, so neither is used here.
	entries [poolCap]*poolEntry
	nent    int
	free    [poolCap]*poolEntry
	nfree   int
	pi      int

	Gets, Puts, Reuses, DoublePuts, Fresh, Overflow int
}

const poolCap = 4096

func NewSimPool(plan PoolPlan) *SimPool { return &SimPool{plan: plan} }

const (
	PoisonPut = 0xA5
	PoisonGet = 0x5C
)

// Get implements astits.VerifPool.
//
//go:norace
func (p *SimPool) Get() []byte {
	p.Gets++
	if p.plan.Policy == "never" || p.nfree == 0 {
		p.Fresh++
		return nil
	}
	k := p.nfree - 1
	switch p.plan.Policy {
	case "fifo":
		k = 0
	case "pick":
		if len(p.plan.Picks) > 0 {
			x := p.plan.Picks[p.pi%len(p.plan.Picks)]
			if x < 0 {
				x = -x
			}
			k = x % p.nfree
			p.pi++
		}
	}
	e := p.free[k]
	for j := k; j+1 < p.nfree; j++ {
		p.free[j] = p.free[j+1]
	}
	p.nfree--
	p.free[p.nfree] = nil
	e.free = false
	e.seq.Load() // acquire: pairs with the Add in Put
	b := e.buf[:cap(e.buf)]
	for i := range b {
		b[i] = PoisonGet
	}
	p.Reuses++
	return b
}

// Put implements astits.VerifPool.
//
//go:norace
func (p *SimPool) Put(b []byte) {
	p.Puts++
	if cap(b) == 0 {
		return
	}
	b = b[:cap(b)]
	key := unsafe.Pointer(&b[0])
	var e *poolEntry
	for j := 0; j < p.nent; j++ {
		if unsafe.Pointer(&p.entries[j].buf[0]) == key {
			e = p.entries[j]
			break
		}
	}
	if e == nil {
		if p.nent == poolCap {
			p.Overflow++
			return // dropped, as a real pool may do at any time
		}
		e = &poolEntry{buf: b}
		p.entries[p.nent] = e
		p.nent++
	} else if e.free {
		p.DoublePuts++
		return
	}
	for i := range b {
		b[i] = PoisonPut
	}
	e.free = true
	e.seq.Add(1) // release
	p.free[p.nfree] = e
	p.nfree++
}

// Outstanding is the number of buffers handed out and not returned.
//
//go:norace
func (p *SimPool) Outstanding() int { return p.Gets - p.Puts }
