// Package world holds the simulated outside world of the library: the reader it pulls bytes
// from, the writer it pushes bytes to, and the packet channel between a multiplexer and a
// demultiplexer. Everything here is deterministic: behaviour is a function of the plan.
package world

import (
	"bufio"
	"errors"
	"io"

	"verif/sim/core"
)

// ErrInjected is the sentinel every injected I/O failure wraps.
var ErrInjected = errors.New("sim: injected I/O failure")

// ReaderPlan describes how a SimReader serves its bytes.
type ReaderPlan struct {
	Kind        string `json:"kind"`             // seekable | plain | bufio
	Chunks      []int  `json:"chunks,omitempty"` // sizes of successive reads (cyclic); empty = as much as asked
	EOFWithData bool   `json:"eof_with_data,omitempty"`
	BufioSize   int    `json:"bufio_size,omitempty"`
	// Fault: the Read issued at logical offset FaultAt returns (0, ErrInjected). With
	// FaultPartial (sticky only) a read that crosses FaultAt returns the bytes below it together
	// with the error.
	HasFault     bool `json:"has_fault,omitempty"`
	FaultAt      int  `json:"fault_at,omitempty"`
	FaultSticky  bool `json:"fault_sticky,omitempty"`
	FaultPartial bool `json:"fault_partial,omitempty"`
	// EOFPauses: ascending logical offsets at which Read returns (0, io.EOF) although more bytes
	// will follow (a source that is still growing: a file being recorded, a tailed stream). The
	// source stays at end of file until the simulated caller calls Resume - which it does after
	// the Demuxer has told it ErrNoMorePackets, i.e. when the Demuxer has handed out everything
	// it held. No read crosses a pause that has not been passed yet.
	EOFPauses []int `json:"eof_pauses,omitempty"`
}

// SimReader is the io.Reader handed to the Demuxer.
type SimReader struct {
	data    []byte
	pos     int
	plan    ReaderPlan
	ci      int
	Reads   int64
	Pulled  int64 // bytes handed out in total
	Seeks   int64
	faulted bool // one-shot fault already delivered
	FaultN  int  // times the fault was delivered
	EOFHits int  // reads that returned (0, io.EOF)
	pi      int  // EOF pauses already passed
	atPause bool // the current pause has been reported at least once
	PauseN  int  // distinct pauses reported
	log     *core.Log
}

type seekableReader struct{ *SimReader }

func (s seekableReader) Seek(off int64, whence int) (int64, error) {
	return s.SimReader.seek(off, whence)
}

// NewReader returns the reader to pass to NewDemuxer and the SimReader behind it.
func NewReader(data []byte, plan ReaderPlan, log *core.Log) (io.Reader, *SimReader) {
	s := &SimReader{data: data, plan: plan, log: log}
	switch plan.Kind {
	case "seekable":
		return seekableReader{s}, s
	case "bufio":
		n := plan.BufioSize
		if n < 16 {
			n = 4096
		}
		return bufio.NewReaderSize(s, n), s
	case "bufio-rw":
		// a reader that can Peek but is not a *bufio.Reader (nor seekable): to the Demuxer it is
		// a plain reader
		n := plan.BufioSize
		if n < 256 {
			n = 4096
		}
		return bufio.NewReadWriter(bufio.NewReaderSize(s, n), bufio.NewWriterSize(io.Discard, 16)), s
	default:
		return s, s
	}
}

// Resume lets a source that is waiting at an EOF pause grow again.
func (s *SimReader) Resume() {
	if s.atPause && s.pi < len(s.plan.EOFPauses) && s.pos == s.plan.EOFPauses[s.pi] {
		s.pi++
		s.atPause = false
		s.log.Add("reader", "resume", s.pos)
	}
}

// Pos is the logical position: offset of the next byte the reader would serve.
func (s *SimReader) Pos() int { return s.pos }

func (s *SimReader) Read(p []byte) (int, error) {
	s.Reads++
	if len(p) == 0 {
		return 0, nil
	}
	if s.plan.HasFault && s.pos == s.plan.FaultAt && (s.plan.FaultSticky || !s.faulted) {
		s.faulted = true
		s.FaultN++
		s.log.Add("reader", "fault", s.pos)
		return 0, ErrInjected
	}
	for s.pi < len(s.plan.EOFPauses) && s.plan.EOFPauses[s.pi] < s.pos {
		s.pi++ // jumped over by a seek
		s.atPause = false
	}
	if s.pi < len(s.plan.EOFPauses) && s.pos == s.plan.EOFPauses[s.pi] {
		// the source stays at end of file until the caller, having been told ErrNoMorePackets,
		// comes back later (Resume)
		if !s.atPause {
			s.atPause = true
			s.PauseN++
		}
		s.log.Add("reader", "eof-pause", s.pos)
		return 0, io.EOF
	}
	if s.pos >= len(s.data) {
		s.log.Add("reader", "eof", s.pos)
		s.EOFHits++
		return 0, io.EOF
	}
	n := len(p)
	if len(s.plan.Chunks) > 0 {
		c := s.plan.Chunks[s.ci%len(s.plan.Chunks)]
		s.ci++
		if c < 1 {
			c = 1
		}
		if c < n {
			n = c
		}
	}
	if n > len(s.data)-s.pos {
		n = len(s.data) - s.pos
	}
	if s.pi < len(s.plan.EOFPauses) && s.pos < s.plan.EOFPauses[s.pi] && s.pos+n > s.plan.EOFPauses[s.pi] {
		n = s.plan.EOFPauses[s.pi] - s.pos
	}
	var err error
	if s.plan.HasFault && s.pos < s.plan.FaultAt && s.pos+n > s.plan.FaultAt && (s.plan.FaultSticky || !s.faulted) {
		n = s.plan.FaultAt - s.pos
		if s.plan.FaultPartial && s.plan.FaultSticky {
			err = ErrInjected
			s.FaultN++
		}
	}
	copy(p, s.data[s.pos:s.pos+n])
	s.pos += n
	s.Pulled += int64(n)
	if err == nil && s.plan.EOFWithData && s.pos == len(s.data) {
		err = io.EOF
	}
	s.log.Add("reader", "read", len(p), n, err != nil)
	return n, err
}

func (s *SimReader) seek(off int64, whence int) (int64, error) {
	s.Seeks++
	var np int64
	switch whence {
	case io.SeekStart:
		np = off
	case io.SeekCurrent:
		np = int64(s.pos) + off
	case io.SeekEnd:
		np = int64(len(s.data)) + off
	}
	if np < 0 {
		return 0, errors.New("sim: negative seek")
	}
	s.pos = int(np)
	s.log.Add("reader", "seek", np)
	return np, nil
}

// WriterPlan describes the failures of a SimWriter.
type WriterPlan struct {
	HasFault  bool `json:"has_fault,omitempty"`
	FailCall  int  `json:"fail_call,omitempty"` // index (0-based) of the Write call that fails
	Permanent bool `json:"permanent,omitempty"` // every later call fails too
	Short     int  `json:"short,omitempty"`     // bytes accepted by the failing call before the error (clamped to len-1)
}

// WriteRec is one recorded Write call.
type WriteRec struct {
	Off, Len, Accepted int
	Failed             bool
}

// SimWriter is the io.Writer handed to the Muxer.
type SimWriter struct {
	Buf    []byte
	Calls  []WriteRec
	plan   WriterPlan
	Faults int
	log    *core.Log
	quiet  bool
}

func NewWriter(plan WriterPlan, log *core.Log) *SimWriter {
	return &SimWriter{plan: plan, log: log, quiet: true}
}

func (w *SimWriter) Write(p []byte) (int, error) {
	idx := len(w.Calls)
	fail := w.plan.HasFault && (idx == w.plan.FailCall || (w.plan.Permanent && idx > w.plan.FailCall))
	if fail {
		n := w.plan.Short
		if n >= len(p) {
			n = len(p) - 1
		}
		if n < 0 {
			n = 0
		}
		w.Calls = append(w.Calls, WriteRec{Off: len(w.Buf), Len: len(p), Accepted: n, Failed: true})
		w.Buf = append(w.Buf, p[:n]...)
		w.Faults++
		w.log.Add("writer", "fault", idx, len(p), n)
		return n, ErrInjected
	}
	w.Calls = append(w.Calls, WriteRec{Off: len(w.Buf), Len: len(p), Accepted: len(p)})
	w.Buf = append(w.Buf, p...)
	return len(p), nil
}

// Accepted is the number of bytes accepted so far.
func (w *SimWriter) Accepted() int { return len(w.Buf) }
