package refts

// PESHeader is the part of the PES packet header the stream model uses.
type PESHeader struct {
	StreamID  uint8  `json:"stream_id"`
	Unbounded bool   `json:"unbounded,omitempty"` // PES_packet_length = 0
	HasPTS    bool   `json:"has_pts,omitempty"`
	PTS       uint64 `json:"pts,omitempty"`
	HasDTS    bool   `json:"has_dts,omitempty"` // only with HasPTS
	DTS       uint64 `json:"dts,omitempty"`
	Align     bool   `json:"align,omitempty"`
	Prio      bool   `json:"prio,omitempty"`
	Copyright bool   `json:"copyright,omitempty"`
	Original  bool   `json:"original,omitempty"`
	HasESCR   bool   `json:"has_escr,omitempty"`
	ESCR      *Clock `json:"escr,omitempty"`
	HasRate   bool   `json:"has_rate,omitempty"`
	Rate      uint32 `json:"rate,omitempty"`
	HdrStuff  int    `json:"hdr_stuff,omitempty"` // stuffing bytes inside the PES header
}

// NoOptionalHeader reports stream ids whose PES packets carry no optional header
// (ISO 13818-1 table 2-21: padding stream and private_stream_2 among others; only the two
// the library distinguishes are used by the generator).
func NoOptionalHeader(id uint8) bool { return id == 0xbe || id == 0xbf }

// EncodePES renders a complete PES packet.
func EncodePES(h *PESHeader, payload []byte) []byte {
	out := []byte{0, 0, 1, h.StreamID, 0, 0}
	if !NoOptionalHeader(h.StreamID) {
		f1 := byte(0x80)
		if h.Prio {
			f1 |= 8
		}
		if h.Align {
			f1 |= 4
		}
		if h.Copyright {
			f1 |= 2
		}
		if h.Original {
			f1 |= 1
		}
		var f2 byte
		var fields []byte
		if h.HasPTS && h.HasDTS {
			f2 |= 0xc0
			var b [10]byte
			putTS5(b[:5], 3, h.PTS)
			putTS5(b[5:], 1, h.DTS)
			fields = append(fields, b[:]...)
		} else if h.HasPTS {
			f2 |= 0x80
			var b [5]byte
			putTS5(b[:], 2, h.PTS)
			fields = append(fields, b[:]...)
		}
		if h.HasESCR && h.ESCR != nil {
			f2 |= 0x20
			b, e := h.ESCR.Base, uint64(h.ESCR.Ext)
			v := uint64(3)<<46 | (b>>30&7)<<43 | 1<<42 | (b>>15&0x7fff)<<27 | 1<<26 | (b&0x7fff)<<11 | 1<<10 | (e&0x1ff)<<1 | 1
			for i := 5; i >= 0; i-- {
				fields = append(fields, byte(v>>(8*uint(i))))
			}
		}
		if h.HasRate {
			f2 |= 0x10
			v := uint32(1)<<23 | (h.Rate&0x3fffff)<<1 | 1
			fields = append(fields, byte(v>>16), byte(v>>8), byte(v))
		}
		for i := 0; i < h.HdrStuff; i++ {
			fields = append(fields, 0xff)
		}
		out = append(out, f1, f2, byte(len(fields)))
		out = append(out, fields...)
	}
	out = append(out, payload...)
	n := len(out) - 6
	if !h.Unbounded && n <= 0xffff {
		out[4], out[5] = byte(n>>8), byte(n)
	}
	return out
}

// PESInfo is what the reference start-code/length framer sees in a PES packet.
type PESInfo struct {
	StreamID uint8
	Length   int // PES_packet_length field
	HdrLen   int // bytes before the payload
}

// FramePES checks the start code prefix and reads the fixed header.
func FramePES(b []byte) (*PESInfo, bool) {
	if len(b) < 6 || b[0] != 0 || b[1] != 0 || b[2] != 1 {
		return nil, false
	}
	pi := &PESInfo{StreamID: b[3], Length: int(b[4])<<8 | int(b[5]), HdrLen: 6}
	if !NoOptionalHeader(b[3]) {
		if len(b) < 9 {
			return nil, false
		}
		pi.HdrLen = 9 + int(b[8])
	}
	return pi, true
}
