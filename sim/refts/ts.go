// Package refts is an independent reference codec for the parts of ISO/IEC 13818-1 and
// EN 300 468 the simulator needs: TS packet header and adaptation field, PES packet header,
// PSI/SI sections and CRC-32/MPEG-2. It is written from the specifications and shares no
// code with the library under test (it does not import it).
package refts

import (
	"errors"
	"fmt"
)

const PacketSize = 188

// Clock is a 33-bit base / 9-bit extension clock value.
type Clock struct {
	Base uint64 `json:"base"`
	Ext  uint16 `json:"ext,omitempty"`
}

// AFExt is the adaptation field extension.
type AFExt struct {
	LTW        bool   `json:"ltw,omitempty"`
	LTWValid   bool   `json:"ltw_valid,omitempty"`
	LTWOffset  uint16 `json:"ltw_offset,omitempty"`
	Piecewise  bool   `json:"piecewise,omitempty"`
	Rate       uint32 `json:"rate,omitempty"`
	Seamless   bool   `json:"seamless,omitempty"`
	SpliceType uint8  `json:"splice_type,omitempty"`
	DTSNext    uint64 `json:"dts_next,omitempty"`
}

// AF is an adaptation field. Length is adaptation_field_length as found on the wire (decode)
// or computed (encode).
type AF struct {
	Length     int    `json:"length"`
	Disc       bool   `json:"disc,omitempty"`
	RAI        bool   `json:"rai,omitempty"`
	ESPI       bool   `json:"espi,omitempty"`
	PCR        *Clock `json:"pcr,omitempty"`
	OPCR       *Clock `json:"opcr,omitempty"`
	HasSplice  bool   `json:"has_splice,omitempty"`
	Splice     uint8  `json:"splice,omitempty"`
	HasPrivate bool   `json:"has_private,omitempty"`
	Private    []byte `json:"private,omitempty"`
	Ext        *AFExt `json:"ext,omitempty"`
	Stuffing   int    `json:"stuffing,omitempty"`
}

// Pkt is a decoded TS packet.
type Pkt struct {
	TEI     bool
	PUSI    bool
	Prio    bool
	PID     uint16
	TSC     uint8
	AFC     uint8 // adaptation_field_control (2 bits)
	CC      uint8
	AF      *AF
	Payload []byte
}

func (p *Pkt) HasPayload() bool { return p.AFC&1 != 0 }
func (p *Pkt) HasAF() bool      { return p.AFC&2 != 0 }

// bodyLen is the number of bytes of the AF after the length byte, without stuffing.
func (a *AF) bodyLen() int {
	n := 1 // flags
	if a.PCR != nil {
		n += 6
	}
	if a.OPCR != nil {
		n += 6
	}
	if a.HasSplice {
		n++
	}
	if a.HasPrivate {
		n += 1 + len(a.Private)
	}
	if a.Ext != nil {
		n += 1 + a.Ext.bodyLen()
	}
	return n
}

func (e *AFExt) bodyLen() int {
	n := 1
	if e.LTW {
		n += 2
	}
	if e.Piecewise {
		n += 3
	}
	if e.Seamless {
		n += 5
	}
	return n
}

// Size is the number of bytes the AF occupies on the wire including its length byte.
// An AF with Length==0 and no content is the 1-byte form.
func (a *AF) Size() int {
	if a == nil {
		return 0
	}
	if a.empty() && a.Stuffing < 0 {
		return 1
	}
	return 1 + a.bodyLen() + a.Stuffing
}

func (a *AF) empty() bool {
	return !a.Disc && !a.RAI && !a.ESPI && a.PCR == nil && a.OPCR == nil && !a.HasSplice && !a.HasPrivate && a.Ext == nil
}

// StuffAF returns an AF occupying exactly n bytes (n>=1), extending base (may be nil).
func StuffAF(base *AF, n int) *AF {
	if base == nil {
		if n == 1 {
			return &AF{Stuffing: -1}
		}
		return &AF{Stuffing: n - 2}
	}
	c := *base
	c.Stuffing = n - 1 - c.bodyLen()
	return &c
}

func putClock6(b []byte, c *Clock) {
	v := (c.Base&0x1ffffffff)<<15 | 0x3f<<9 | uint64(c.Ext&0x1ff)
	for i := 0; i < 6; i++ {
		b[i] = byte(v >> (8 * uint(5-i)))
	}
}

func getClock6(b []byte) *Clock {
	var v uint64
	for i := 0; i < 6; i++ {
		v = v<<8 | uint64(b[i])
	}
	return &Clock{Base: v >> 15, Ext: uint16(v & 0x1ff)}
}

// putTS5 writes a 33-bit timestamp in the 4+3+1+15+1+15+1 layout.
func putTS5(b []byte, prefix uint8, v uint64) {
	b[0] = prefix<<4 | byte(v>>30&0x7)<<1 | 1
	b[1] = byte(v >> 22)
	b[2] = byte(v>>15&0x7f)<<1 | 1
	b[3] = byte(v >> 7)
	b[4] = byte(v&0x7f)<<1 | 1
}

func getTS5(b []byte) (prefix uint8, v uint64) {
	prefix = b[0] >> 4
	v = uint64(b[0]>>1&0x7)<<30 | uint64(b[1])<<22 | uint64(b[2]>>1)<<15 | uint64(b[3])<<7 | uint64(b[4]>>1)
	return
}

// EncodeAF renders the adaptation field (length byte included).
func EncodeAF(a *AF) []byte {
	if a.empty() && a.Stuffing < 0 {
		return []byte{0}
	}
	n := a.bodyLen() + a.Stuffing
	out := make([]byte, 0, n+1)
	out = append(out, byte(n))
	var fl byte
	if a.Disc {
		fl |= 0x80
	}
	if a.RAI {
		fl |= 0x40
	}
	if a.ESPI {
		fl |= 0x20
	}
	if a.PCR != nil {
		fl |= 0x10
	}
	if a.OPCR != nil {
		fl |= 0x08
	}
	if a.HasSplice {
		fl |= 0x04
	}
	if a.HasPrivate {
		fl |= 0x02
	}
	if a.Ext != nil {
		fl |= 0x01
	}
	out = append(out, fl)
	if a.PCR != nil {
		var b [6]byte
		putClock6(b[:], a.PCR)
		out = append(out, b[:]...)
	}
	if a.OPCR != nil {
		var b [6]byte
		putClock6(b[:], a.OPCR)
		out = append(out, b[:]...)
	}
	if a.HasSplice {
		out = append(out, a.Splice)
	}
	if a.HasPrivate {
		out = append(out, byte(len(a.Private)))
		out = append(out, a.Private...)
	}
	if e := a.Ext; e != nil {
		out = append(out, byte(e.bodyLen()))
		var f byte = 0x1f
		if e.LTW {
			f |= 0x80
		}
		if e.Piecewise {
			f |= 0x40
		}
		if e.Seamless {
			f |= 0x20
		}
		out = append(out, f)
		if e.LTW {
			v := e.LTWOffset & 0x7fff
			if e.LTWValid {
				v |= 0x8000
			}
			out = append(out, byte(v>>8), byte(v))
		}
		if e.Piecewise {
			v := e.Rate&0x3fffff | 0xc00000
			out = append(out, byte(v>>16), byte(v>>8), byte(v))
		}
		if e.Seamless {
			var b [5]byte
			putTS5(b[:], e.SpliceType&0xf, e.DTSNext)
			out = append(out, b[:]...)
		}
	}
	for i := 0; i < a.Stuffing; i++ {
		out = append(out, 0xff)
	}
	return out
}

// EncodePacket renders a packet to exactly 188 bytes. AF size + payload must be 184.
func EncodePacket(p *Pkt) ([]byte, error) {
	out := make([]byte, 0, PacketSize)
	b1 := byte(p.PID >> 8 & 0x1f)
	if p.TEI {
		b1 |= 0x80
	}
	if p.PUSI {
		b1 |= 0x40
	}
	if p.Prio {
		b1 |= 0x20
	}
	out = append(out, 0x47, b1, byte(p.PID), p.TSC<<6|p.AFC&3<<4|p.CC&0xf)
	if p.HasAF() {
		out = append(out, EncodeAF(p.AF)...)
	}
	if p.HasPayload() {
		out = append(out, p.Payload...)
	}
	if len(out) != PacketSize {
		return nil, fmt.Errorf("refts: packet is %d bytes", len(out))
	}
	return out, nil
}

var ErrSync = errors.New("refts: no sync byte")

// DecodePacket decodes and validates one 188-byte packet strictly: the adaptation field must
// be consistent with adaptation_field_control and with its own length.
func DecodePacket(b []byte) (*Pkt, error) {
	if len(b) != PacketSize {
		return nil, fmt.Errorf("refts: packet length %d", len(b))
	}
	if b[0] != 0x47 {
		return nil, ErrSync
	}
	p := &Pkt{
		TEI: b[1]&0x80 != 0, PUSI: b[1]&0x40 != 0, Prio: b[1]&0x20 != 0,
		PID: uint16(b[1]&0x1f)<<8 | uint16(b[2]),
		TSC: b[3] >> 6, AFC: b[3] >> 4 & 3, CC: b[3] & 0xf,
	}
	if p.AFC == 0 {
		return nil, errors.New("refts: adaptation_field_control 00 is reserved")
	}
	off := 4
	if p.HasAF() {
		l := int(b[4])
		if p.HasPayload() && l > 182 {
			return nil, fmt.Errorf("refts: adaptation_field_length %d with payload", l)
		}
		if !p.HasPayload() && l != 183 {
			return nil, fmt.Errorf("refts: adaptation_field_length %d without payload (must be 183)", l)
		}
		a, err := DecodeAF(b[4 : 5+l])
		if err != nil {
			return nil, err
		}
		p.AF = a
		off = 5 + l
	}
	if p.HasPayload() {
		p.Payload = b[off:]
		if len(p.Payload) == 0 {
			return nil, errors.New("refts: payload flagged but empty")
		}
	}
	return p, nil
}

// DecodeAF decodes an adaptation field given exactly its bytes (length byte included).
func DecodeAF(b []byte) (*AF, error) {
	a := &AF{Length: int(b[0])}
	if a.Length != len(b)-1 {
		return nil, fmt.Errorf("refts: AF length %d but %d bytes", a.Length, len(b)-1)
	}
	if a.Length == 0 {
		a.Stuffing = -1
		return a, nil
	}
	i := 1
	need := func(n int) error {
		if i+n > len(b) {
			return fmt.Errorf("refts: adaptation field overruns its length (%d > %d)", i+n-1, a.Length)
		}
		return nil
	}
	fl := b[i]
	i++
	a.Disc, a.RAI, a.ESPI = fl&0x80 != 0, fl&0x40 != 0, fl&0x20 != 0
	if fl&0x10 != 0 {
		if err := need(6); err != nil {
			return nil, err
		}
		a.PCR = getClock6(b[i:])
		i += 6
	}
	if fl&0x08 != 0 {
		if err := need(6); err != nil {
			return nil, err
		}
		a.OPCR = getClock6(b[i:])
		i += 6
	}
	if fl&0x04 != 0 {
		if err := need(1); err != nil {
			return nil, err
		}
		a.HasSplice, a.Splice = true, b[i]
		i++
	}
	if fl&0x02 != 0 {
		if err := need(1); err != nil {
			return nil, err
		}
		n := int(b[i])
		i++
		if err := need(n); err != nil {
			return nil, err
		}
		a.HasPrivate = true
		a.Private = append([]byte{}, b[i:i+n]...)
		i += n
	}
	if fl&0x01 != 0 {
		if err := need(1); err != nil {
			return nil, err
		}
		n := int(b[i])
		i++
		if err := need(n); err != nil {
			return nil, err
		}
		eb := b[i : i+n]
		i += n
		e := &AFExt{}
		if n > 0 {
			j := 1
			f := eb[0]
			if f&0x80 != 0 {
				if j+2 > n {
					return nil, errors.New("refts: AF extension overrun")
				}
				e.LTW = true
				e.LTWValid = eb[j]&0x80 != 0
				e.LTWOffset = uint16(eb[j]&0x7f)<<8 | uint16(eb[j+1])
				j += 2
			}
			if f&0x40 != 0 {
				if j+3 > n {
					return nil, errors.New("refts: AF extension overrun")
				}
				e.Piecewise = true
				e.Rate = uint32(eb[j]&0x3f)<<16 | uint32(eb[j+1])<<8 | uint32(eb[j+2])
				j += 3
			}
			if f&0x20 != 0 {
				if j+5 > n {
					return nil, errors.New("refts: AF extension overrun")
				}
				e.Seamless = true
				e.SpliceType, e.DTSNext = getTS5(eb[j:])
				j += 5
			}
		}
		a.Ext = e
	}
	a.Stuffing = len(b) - i
	for ; i < len(b); i++ {
		if b[i] != 0xff {
			return nil, fmt.Errorf("refts: adaptation field stuffing byte %#x at %d", b[i], i)
		}
	}
	return a, nil
}

// SplitPackets cuts a byte stream into 188-byte packets; ok is false if the length is not a
// multiple of 188.
func SplitPackets(b []byte) (pk [][]byte, ok bool) {
	for len(b) >= PacketSize {
		pk = append(pk, b[:PacketSize])
		b = b[PacketSize:]
	}
	return pk, len(b) == 0
}

// NullPacket returns a null packet (PID 0x1FFF) with the given continuity counter.
func NullPacket(cc uint8) []byte {
	b := make([]byte, PacketSize)
	b[0], b[1], b[2], b[3] = 0x47, 0x1f, 0xff, 0x10|cc&0xf
	for i := 4; i < PacketSize; i++ {
		b[i] = 0xff
	}
	return b
}

// DecodeLenient decodes only what can be read without trusting the adaptation field: the
// header, and the payload as located by adaptation_field_length. It is used to keep per-PID
// bookkeeping going after the strict decoder has already rejected (and reported) a packet.
func DecodeLenient(b []byte) *Pkt {
	if len(b) != PacketSize {
		return nil
	}
	p := &Pkt{
		TEI: b[1]&0x80 != 0, PUSI: b[1]&0x40 != 0, Prio: b[1]&0x20 != 0,
		PID: uint16(b[1]&0x1f)<<8 | uint16(b[2]),
		TSC: b[3] >> 6, AFC: b[3] >> 4 & 3, CC: b[3] & 0xf,
	}
	off := 4
	if p.HasAF() {
		off = 5 + int(b[4])
		p.AF = &AF{Length: int(b[4])}
	}
	if p.HasPayload() && off < PacketSize {
		p.Payload = b[off:]
	}
	return p
}
