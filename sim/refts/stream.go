package refts

import "fmt"

// Unit is one payload unit of the reference stream model: a PES packet or a group of PSI
// sections starting in one TS packet. Chunks is the packetisation: payload bytes carried by
// each successive TS packet of the unit (1..184); the rest of each packet is adaptation
// field stuffing, or - for PSI - trailing 0xFF bytes counted in the last chunks.
type Unit struct {
	Tag int `json:"tag"`
	// PES
	PES    *PESHeader `json:"pes,omitempty"`
	Len    int        `json:"len,omitempty"`
	Biased bool       `json:"biased,omitempty"`  // payload made of 00 00 01 Ex patterns at 184-byte strides
	BiasXY bool       `json:"bias_xy,omitempty"` // with Biased: the pattern is 02 04 01 / 04 00 01 / 00 04 01 Ex (looks like a start code only to a sloppy test)
	// PSI
	Pointer  int       `json:"pointer,omitempty"`
	Sections []Section `json:"sections,omitempty"`
	// Raw, when set, replaces the encoded bytes of the unit (pointer_field included): used by
	// the bit-rot engine to carry a corrupted unit.
	Raw []byte `json:"raw,omitempty"`
	// packetisation
	Chunks []int `json:"chunks"`
	// Straddle > 0: the last Straddle bytes of the previous unit of this PID are carried at the
	// start of this unit's first packet, announced by pointer_field (ISO 13818-1 2.4.4.1: a
	// section may end in a packet in which the next one starts). Pointer is ignored then.
	Straddle int  `json:"straddle,omitempty"`
	AF       *AF  `json:"af,omitempty"`   // content of the first packet's adaptation field (stuffing is added as needed)
	Prio     bool `json:"prio,omitempty"` // transport_priority on the unit's packets
	// MidPCR: packets after the first whose chunk leaves room for it carry a PCR too
	MidPCR bool `json:"mid_pcr,omitempty"`
}

func (u *Unit) IsPES() bool { return u.PES != nil }

// Stream is the packet sequence of one PID.
type Stream struct {
	PID   uint16 `json:"pid"`
	Kind  string `json:"kind"` // PAT | PMT | PES | SI
	CC0   uint8  `json:"cc0,omitempty"`
	Units []Unit `json:"units"`
	// WaitPAT > 0 (PMT streams): the PID is announced only by a later PAT version; that many
	// packets of the PAT stream precede the stream's packets in every generated multiplex
	WaitPAT int `json:"wait_pat,omitempty"`
}

// Model is a whole transport stream: per-PID streams plus the multiplex schedule (Merge lists
// stream indices; each entry emits the next packet of that stream).
type Model struct {
	Streams []Stream `json:"streams"`
	Merge   []int    `json:"merge"`
}

// PktMeta locates a built packet in the model.
type PktMeta struct {
	Stream int
	Unit   int
	Index  int // position within the unit
	Count  int // packets in the unit
	PID    uint16
	CC     uint8
	PUSI   bool
}

// PayloadByte is the tagged payload alphabet (0x02..0xFE): no fragment can begin with a PES
// start code and every unit is attributable.
func PayloadByte(tag, i int) byte {
	x := uint32(tag)*2654435761 + uint32(i)*40503 + uint32(i>>8)*97
	x ^= x >> 13
	return byte(2 + x%253)
}

// UnitPayload is the elementary-stream payload of a PES unit.
func (u *Unit) UnitPayload() []byte {
	b := make([]byte, u.Len)
	if u.Biased {
		// every 184-byte stride starts with a PES start code and a video stream id, followed by
		// a plausible optional header: a fragment beginning at a stride boundary parses as a PES
		hdr := len(EncodePES(u.PES, nil))
		for i := range b {
			switch (i + hdr) % 184 {
			case 0:
				b[i] = 0
				if u.BiasXY {
					// 02 04 01, 04 00 01 or 00 04 01 (by tag): one wrong byte in either position
					b[i] = []byte{0x02, 0x04, 0x00}[u.Tag%3]
				}
			case 1:
				b[i] = 0
				if u.BiasXY {
					b[i] = []byte{0x04, 0x00, 0x04}[u.Tag%3]
				}
			case 2:
				b[i] = 1
			case 3:
				b[i] = 0xe0
			case 4, 5:
				b[i] = 0
			case 6:
				b[i] = 0x80
			case 7, 8:
				b[i] = 0
			default:
				b[i] = PayloadByte(u.Tag, i)
			}
		}
		return b
	}
	for i := range b {
		b[i] = PayloadByte(u.Tag, i)
	}
	return b
}

// Bytes is the byte string the unit puts into TS payloads (without trailing PSI stuffing).
func (u *Unit) Bytes() []byte {
	if u.Raw != nil {
		return append([]byte{}, u.Raw...)
	}
	if u.IsPES() {
		return EncodePES(u.PES, u.UnitPayload())
	}
	out := []byte{byte(u.Pointer)}
	for i := 0; i < u.Pointer; i++ {
		out = append(out, 0xff)
	}
	for i := range u.Sections {
		out = append(out, u.Sections[i].Encode()...)
	}
	return out
}

// BuildStream renders the packets of one stream.
func BuildStream(si int, s *Stream) (pk [][]byte, meta []PktMeta, err error) {
	cc := s.CC0 & 0xf
	var carry []byte
	for ui := range s.Units {
		u := &s.Units[ui]
		b := u.Bytes()
		if u.Straddle > 0 {
			if len(carry) != u.Straddle || u.IsPES() {
				return nil, nil, fmt.Errorf("refts: unit %d/%d: nothing to straddle", si, ui)
			}
			nb := append([]byte{byte(len(carry))}, carry...)
			b = append(nb, b[1+u.Pointer:]...)
		}
		carry = nil
		if ui+1 < len(s.Units) && s.Units[ui+1].Straddle > 0 {
			n := s.Units[ui+1].Straddle
			if n >= len(b) {
				return nil, nil, fmt.Errorf("refts: unit %d/%d: straddle %d of %d bytes", si, ui, n, len(b))
			}
			carry = append(carry, b[len(b)-n:]...)
			b = b[:len(b)-n]
		}
		total := 0
		for _, c := range u.Chunks {
			if c < 1 || c > 184 {
				return nil, nil, fmt.Errorf("refts: chunk %d", c)
			}
			total += c
		}
		if total < len(b) || ((u.IsPES() || carry != nil) && total != len(b)) {
			return nil, nil, fmt.Errorf("refts: unit %d/%d: chunks carry %d bytes, unit has %d", si, ui, total, len(b))
		}
		for len(b) < total {
			b = append(b, 0xff) // PSI stuffing after the last section
		}
		off := 0
		for k, c := range u.Chunks {
			p := &Pkt{PID: s.PID, PUSI: k == 0, Prio: u.Prio, CC: cc, AFC: 1, Payload: b[off : off+c]}
			off += c
			var base *AF
			if k == 0 {
				base = u.AF
			} else if u.MidPCR && 184-c >= 8 {
				base = &AF{PCR: &Clock{Base: uint64(90000 + 3003*k + 17*u.Tag), Ext: uint16(k % 300)}}
			}
			if c < 184 || base != nil {
				p.AFC = 3
				p.AF = StuffAF(base, 184-c)
				if p.AF.Stuffing < -1 || (p.AF.Stuffing < 0 && base != nil) {
					return nil, nil, fmt.Errorf("refts: unit %d/%d: adaptation field content does not fit beside a %d-byte chunk", si, ui, c)
				}
			}
			raw, e := EncodePacket(p)
			if e != nil {
				return nil, nil, e
			}
			pk = append(pk, raw)
			meta = append(meta, PktMeta{Stream: si, Unit: ui, Index: k, Count: len(u.Chunks), PID: s.PID, CC: cc, PUSI: k == 0})
			cc = (cc + 1) & 0xf
		}
	}
	return
}

// Built is a rendered model.
type Built struct {
	PerStream     [][][]byte
	PerStreamMeta [][]PktMeta
	Packets       [][]byte  // merged
	Meta          []PktMeta // merged
}

// Build renders all streams and merges them following Merge (entries that run past the end
// of their stream are skipped; packets left over at the end are appended stream by stream).
func (m *Model) Build() (*Built, error) {
	b := &Built{}
	for si := range m.Streams {
		pk, meta, err := BuildStream(si, &m.Streams[si])
		if err != nil {
			return nil, err
		}
		b.PerStream = append(b.PerStream, pk)
		b.PerStreamMeta = append(b.PerStreamMeta, meta)
	}
	b.Packets, b.Meta = MergePackets(b.PerStream, b.PerStreamMeta, m.Merge)
	return b, nil
}

// MergePackets interleaves per-stream packet lists according to picks, preserving each
// stream's order.
func MergePackets(per [][][]byte, metas [][]PktMeta, picks []int) (out [][]byte, meta []PktMeta) {
	next := make([]int, len(per))
	for _, s := range picks {
		if s < 0 || s >= len(per) || next[s] >= len(per[s]) {
			continue
		}
		out = append(out, per[s][next[s]])
		meta = append(meta, metas[s][next[s]])
		next[s]++
	}
	for s := range per {
		for next[s] < len(per[s]) {
			out = append(out, per[s][next[s]])
			meta = append(meta, metas[s][next[s]])
			next[s]++
		}
	}
	return
}

// Join concatenates packets into a byte stream.
func Join(pk [][]byte) []byte {
	out := make([]byte, 0, len(pk)*PacketSize)
	for _, p := range pk {
		out = append(out, p...)
	}
	return out
}

// RestampPCR returns a copy of a packet whose PCR (if it carries one) has another value - what
// a remultiplexer does to the duplicate of a packet (ISO 13818-1 2.4.3.3 allows exactly this
// difference between a packet and its duplicate) - and whether there was a PCR.
func RestampPCR(raw []byte) ([]byte, bool) {
	if len(raw) < 12 || raw[3]&0x20 == 0 || raw[4] < 7 || raw[5]&0x10 == 0 {
		return raw, false
	}
	c := append([]byte{}, raw...)
	c[9] ^= 0x15 // bits of program_clock_reference_base
	return c, true
}
