package refts

import (
	"errors"
	"fmt"
)

// CRC32 is CRC-32/MPEG-2 computed bit by bit (poly 0x04C11DB7, init 0xFFFFFFFF, MSB first,
// no reflection, no final XOR). No table on purpose.
func CRC32(b []byte) uint32 {
	crc := uint32(0xffffffff)
	for _, c := range b {
		crc ^= uint32(c) << 24
		for i := 0; i < 8; i++ {
			if crc&0x80000000 != 0 {
				crc = crc<<1 ^ 0x04c11db7
			} else {
				crc <<= 1
			}
		}
	}
	return crc
}

// Desc is a raw descriptor.
type Desc struct {
	Tag  uint8  `json:"tag"`
	Data []byte `json:"data,omitempty"`
}

func encDescs(ds []Desc) []byte {
	var out []byte
	for _, d := range ds {
		out = append(out, d.Tag, byte(len(d.Data)))
		out = append(out, d.Data...)
	}
	return out
}

// loop12 prefixes a descriptor loop with reserved(4)=1111 + length(12).
func loop12(hi4 byte, body []byte) []byte {
	n := len(body)
	out := []byte{hi4<<4 | byte(n>>8&0xf), byte(n)}
	return append(out, body...)
}

type PATProgram struct {
	Number uint16 `json:"number"`
	PID    uint16 `json:"pid"`
}
type PAT struct {
	TSID     uint16       `json:"tsid"`
	Programs []PATProgram `json:"programs"`
}
type PMTStream struct {
	Type  uint8  `json:"type"`
	PID   uint16 `json:"pid"`
	Descs []Desc `json:"descs,omitempty"`
}
type PMT struct {
	Program   uint16      `json:"program"`
	PCRPID    uint16      `json:"pcr_pid"`
	ProgDescs []Desc      `json:"prog_descs,omitempty"`
	Streams   []PMTStream `json:"streams"`
}
type SDTService struct {
	ID       uint16 `json:"id"`
	EITSched bool   `json:"eit_sched,omitempty"`
	EITPF    bool   `json:"eit_pf,omitempty"`
	Running  uint8  `json:"running,omitempty"`
	FreeCA   bool   `json:"free_ca,omitempty"`
	Descs    []Desc `json:"descs,omitempty"`
}
type SDT struct {
	Other    bool         `json:"other,omitempty"` // table_id 0x46 instead of 0x42
	TSID     uint16       `json:"tsid"`
	ONID     uint16       `json:"onid"`
	Services []SDTService `json:"services"`
}
type NITTS struct {
	TSID  uint16 `json:"tsid"`
	ONID  uint16 `json:"onid"`
	Descs []Desc `json:"descs,omitempty"`
}
type NIT struct {
	Other     bool    `json:"other,omitempty"` // 0x41 instead of 0x40
	NetworkID uint16  `json:"network_id"`
	NetDescs  []Desc  `json:"net_descs,omitempty"`
	TS        []NITTS `json:"ts"`
}
type EITEvent struct {
	ID      uint16 `json:"id"`
	Start   int64  `json:"start"`    // unix seconds, UTC
	DurSecs int    `json:"dur_secs"` // < 100h
	Running uint8  `json:"running,omitempty"`
	FreeCA  bool   `json:"free_ca,omitempty"`
	Descs   []Desc `json:"descs,omitempty"`
}
type EIT struct {
	TableID     uint8      `json:"table_id"` // 0x4E..0x6F
	ServiceID   uint16     `json:"service_id"`
	TSID        uint16     `json:"tsid"`
	ONID        uint16     `json:"onid"`
	SegLast     uint8      `json:"seg_last,omitempty"`
	LastTableID uint8      `json:"last_table_id,omitempty"`
	Events      []EITEvent `json:"events"`
}
type TOT struct {
	UTC   int64  `json:"utc"` // unix seconds
	Descs []Desc `json:"descs,omitempty"`
}

// TDT is the time and date table (table_id 0x70): short form, no CRC_32. The library parses
// its framing but delivers nothing for it.
type TDT struct {
	UTC int64 `json:"utc"`
}

// Section is one PSI/SI section of the stream model. Exactly one of the table pointers is set.
type Section struct {
	Version uint8 `json:"version,omitempty"`
	Next    bool  `json:"next,omitempty"` // current_next_indicator = 0
	SecNum  uint8 `json:"sec_num,omitempty"`
	LastSec uint8 `json:"last_sec,omitempty"`
	PAT     *PAT  `json:"pat,omitempty"`
	PMT     *PMT  `json:"pmt,omitempty"`
	SDT     *SDT  `json:"sdt,omitempty"`
	NIT     *NIT  `json:"nit,omitempty"`
	EIT     *EIT  `json:"eit,omitempty"`
	TOT     *TOT  `json:"tot,omitempty"`
	TDT     *TDT  `json:"tdt,omitempty"`
}

func (s *Section) Kind() string {
	switch {
	case s.PAT != nil:
		return "PAT"
	case s.PMT != nil:
		return "PMT"
	case s.SDT != nil:
		return "SDT"
	case s.NIT != nil:
		return "NIT"
	case s.EIT != nil:
		return "EIT"
	case s.TOT != nil:
		return "TOT"
	case s.TDT != nil:
		return "TDT"
	}
	return "?"
}

func bcd(n int) byte { return byte(n/10<<4 | n%10) }

// MJD of a unix time (EN 300 468 Annex C; MJD 40587 = 1970-01-01).
func mjdUTC(unix int64) (mjd uint16, h, m, s int) {
	days := unix / 86400
	rem := int(unix % 86400)
	return uint16(40587 + days), rem / 3600, rem % 3600 / 60, rem % 60
}

func encTime5(unix int64) []byte {
	mjd, h, m, s := mjdUTC(unix)
	return []byte{byte(mjd >> 8), byte(mjd), bcd(h), bcd(m), bcd(s)}
}

func u16(v uint16) []byte { return []byte{byte(v >> 8), byte(v)} }

// Encode renders the section, CRC_32 included.
func (s *Section) Encode() []byte {
	if s.TDT != nil {
		// table_id 0x70, section_syntax_indicator 0, section_length 5, UTC_time; no CRC_32
		return append([]byte{0x70, 0x70, 0x05}, encTime5(s.TDT.UTC)...)
	}
	var tid uint8
	var ext uint16
	var body []byte
	long := true
	private := false
	switch {
	case s.PAT != nil:
		tid, ext = 0x00, s.PAT.TSID
		for _, p := range s.PAT.Programs {
			body = append(body, u16(p.Number)...)
			body = append(body, byte(0xe0|p.PID>>8&0x1f), byte(p.PID))
		}
	case s.PMT != nil:
		tid, ext = 0x02, s.PMT.Program
		body = append(body, byte(0xe0|s.PMT.PCRPID>>8&0x1f), byte(s.PMT.PCRPID))
		body = append(body, loop12(0xf, encDescs(s.PMT.ProgDescs))...)
		for _, st := range s.PMT.Streams {
			body = append(body, st.Type, byte(0xe0|st.PID>>8&0x1f), byte(st.PID))
			body = append(body, loop12(0xf, encDescs(st.Descs))...)
		}
	case s.SDT != nil:
		tid, ext, private = 0x42, s.SDT.TSID, true
		if s.SDT.Other {
			tid = 0x46
		}
		body = append(body, u16(s.SDT.ONID)...)
		body = append(body, 0xff)
		for _, sv := range s.SDT.Services {
			body = append(body, u16(sv.ID)...)
			f := byte(0xfc)
			if sv.EITSched {
				f |= 2
			}
			if sv.EITPF {
				f |= 1
			}
			body = append(body, f)
			hi := sv.Running & 7 << 1
			if sv.FreeCA {
				hi |= 1
			}
			body = append(body, loop12(hi, encDescs(sv.Descs))...)
		}
	case s.NIT != nil:
		tid, ext, private = 0x40, s.NIT.NetworkID, true
		if s.NIT.Other {
			tid = 0x41
		}
		body = append(body, loop12(0xf, encDescs(s.NIT.NetDescs))...)
		var tl []byte
		for _, t := range s.NIT.TS {
			tl = append(tl, u16(t.TSID)...)
			tl = append(tl, u16(t.ONID)...)
			tl = append(tl, loop12(0xf, encDescs(t.Descs))...)
		}
		body = append(body, loop12(0xf, tl)...)
	case s.EIT != nil:
		tid, ext, private = s.EIT.TableID, s.EIT.ServiceID, true
		body = append(body, u16(s.EIT.TSID)...)
		body = append(body, u16(s.EIT.ONID)...)
		body = append(body, s.EIT.SegLast, s.EIT.LastTableID)
		for _, ev := range s.EIT.Events {
			body = append(body, u16(ev.ID)...)
			body = append(body, encTime5(ev.Start)...)
			body = append(body, bcd(ev.DurSecs/3600), bcd(ev.DurSecs%3600/60), bcd(ev.DurSecs%60))
			hi := ev.Running & 7 << 1
			if ev.FreeCA {
				hi |= 1
			}
			body = append(body, loop12(hi, encDescs(ev.Descs))...)
		}
	case s.TOT != nil:
		tid, long, private = 0x73, false, true
		body = append(body, encTime5(s.TOT.UTC)...)
		body = append(body, loop12(0xf, encDescs(s.TOT.Descs))...)
	}
	var sec []byte
	if long {
		v := byte(0xc0 | s.Version&0x1f<<1)
		if !s.Next {
			v |= 1
		}
		hdr := append(u16(ext), v, s.SecNum, s.LastSec)
		body = append(hdr, body...)
	}
	sl := len(body) + 4
	b1 := byte(0x30 | sl>>8&0xf)
	if long {
		b1 |= 0x80
	}
	if private {
		b1 |= 0x40
	}
	sec = append(sec, tid, b1, byte(sl))
	sec = append(sec, body...)
	c := CRC32(sec)
	return append(sec, byte(c>>24), byte(c>>16), byte(c>>8), byte(c))
}

// HasCRC reports whether sections with this table_id end in a CRC_32 (the table types the
// properties talk about, plus every long-form section per ISO 13818-1).
func HasCRC(tid byte) bool {
	switch {
	case tid == 0x00, tid == 0x02, tid == 0x40, tid == 0x41, tid == 0x42, tid == 0x46, tid == 0x73:
		return true
	case tid >= 0x4e && tid <= 0x6f:
		return true
	}
	return false
}

// FramedSection is one section located by the reference framer.
type FramedSection struct {
	Start, End int // offsets in the unit payload (pointer_field byte is offset 0)
	TableID    byte
	CRCOK      bool
	Complete   bool // all section_length bytes present
}

// Frame walks a unit payload (starting at the pointer_field) the way ISO 13818-1 2.4.4
// prescribes: skip pointer_field filler, then sections back to back until 0xFF stuffing or
// the end of the payload.
func Frame(payload []byte) (secs []FramedSection, err error) {
	if len(payload) == 0 {
		return nil, errors.New("refts: empty PSI payload")
	}
	i := 1 + int(payload[0])
	if i > len(payload) {
		return nil, fmt.Errorf("refts: pointer_field %d beyond payload %d", payload[0], len(payload))
	}
	for i < len(payload) {
		tid := payload[i]
		if tid == 0xff {
			break
		}
		if i+3 > len(payload) {
			secs = append(secs, FramedSection{Start: i, End: len(payload), TableID: tid})
			break
		}
		sl := int(payload[i+1]&0xf)<<8 | int(payload[i+2])
		end := i + 3 + sl
		fs := FramedSection{Start: i, End: end, TableID: tid, Complete: end <= len(payload)}
		if fs.Complete && sl >= 4 {
			fs.CRCOK = CRC32(payload[i:end]) == 0
		}
		if !fs.Complete {
			fs.End = len(payload)
		}
		secs = append(secs, fs)
		i = end
	}
	return secs, nil
}

// Parsed is the generic decode of one long-form section.
type Parsed struct {
	TableID byte
	SSI     bool
	Length  int
	Ext     uint16
	Version uint8
	Current bool
	SecNum  uint8
	LastSec uint8
	Body    []byte // between last_section_number and CRC_32
	CRCOK   bool
}

// ParseLong decodes a long-form section given exactly its bytes.
func ParseLong(b []byte) (*Parsed, error) {
	if len(b) < 12 {
		return nil, fmt.Errorf("refts: section of %d bytes", len(b))
	}
	p := &Parsed{TableID: b[0], SSI: b[1]&0x80 != 0, Length: int(b[1]&0xf)<<8 | int(b[2])}
	if p.Length != len(b)-3 {
		return nil, fmt.Errorf("refts: section_length %d but %d bytes follow", p.Length, len(b)-3)
	}
	if !p.SSI {
		return nil, errors.New("refts: section_syntax_indicator is 0")
	}
	p.Ext = uint16(b[3])<<8 | uint16(b[4])
	p.Version = b[5] >> 1 & 0x1f
	p.Current = b[5]&1 != 0
	p.SecNum, p.LastSec = b[6], b[7]
	p.Body = b[8 : len(b)-4]
	p.CRCOK = CRC32(b) == 0
	return p, nil
}

func parseDescs(b []byte) ([]Desc, error) {
	var ds []Desc
	for len(b) > 0 {
		if len(b) < 2 || len(b) < 2+int(b[1]) {
			return nil, errors.New("refts: descriptor overruns its loop")
		}
		ds = append(ds, Desc{Tag: b[0], Data: append([]byte(nil), b[2:2+int(b[1])]...)})
		b = b[2+int(b[1]):]
	}
	return ds, nil
}

// ParsePAT decodes a PAT section body.
func ParsePAT(p *Parsed) (*PAT, error) {
	if p.TableID != 0 {
		return nil, fmt.Errorf("refts: table_id %#x on the PAT PID", p.TableID)
	}
	if len(p.Body)%4 != 0 {
		return nil, errors.New("refts: PAT body is not a multiple of 4 bytes")
	}
	t := &PAT{TSID: p.Ext}
	for i := 0; i < len(p.Body); i += 4 {
		t.Programs = append(t.Programs, PATProgram{Number: uint16(p.Body[i])<<8 | uint16(p.Body[i+1]), PID: uint16(p.Body[i+2]&0x1f)<<8 | uint16(p.Body[i+3])})
	}
	return t, nil
}

// ParsePMT decodes a PMT section body, checking every loop length.
func ParsePMT(p *Parsed) (*PMT, error) {
	if p.TableID != 2 {
		return nil, fmt.Errorf("refts: table_id %#x on a PMT PID", p.TableID)
	}
	b := p.Body
	if len(b) < 4 {
		return nil, errors.New("refts: PMT body too short")
	}
	t := &PMT{Program: p.Ext, PCRPID: uint16(b[0]&0x1f)<<8 | uint16(b[1])}
	pil := int(b[2]&0xf)<<8 | int(b[3])
	b = b[4:]
	if pil > len(b) {
		return nil, errors.New("refts: program_info_length overruns the section")
	}
	var err error
	if t.ProgDescs, err = parseDescs(b[:pil]); err != nil {
		return nil, err
	}
	b = b[pil:]
	for len(b) > 0 {
		if len(b) < 5 {
			return nil, errors.New("refts: truncated PMT stream entry")
		}
		s := PMTStream{Type: b[0], PID: uint16(b[1]&0x1f)<<8 | uint16(b[2])}
		eil := int(b[3]&0xf)<<8 | int(b[4])
		b = b[5:]
		if eil > len(b) {
			return nil, errors.New("refts: ES_info_length overruns the section")
		}
		if s.Descs, err = parseDescs(b[:eil]); err != nil {
			return nil, err
		}
		b = b[eil:]
		t.Streams = append(t.Streams, s)
	}
	return t, nil
}
